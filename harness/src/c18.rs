//! C18 — the generated Rust binding defines types with the same Candid meaning.
//!   rs.field <hex name> <snake|camel>   how a field / variant name is written in the binding: identifier and serde rename
//!                                       (read off the emitted struct / enum with syn)
//!   rs.types <hex .did source>          the binding (canister_call template) is parsed with syn; every struct / enum / alias /
//!                                       define_function! / define_service! is read back as the Candid type the derive macro
//!                                       computes for it (label = serde rename, else identifier without r#; tuple fields by
//!                                       position); every source definition must have a structurally equal item, every
//!                                       method's argument and result types must equal the source method's.
use crate::c14;
use crate::c19;
use crate::sexp;
use crate::{Ctx, Out};
use candid::types::internal::{Field, FuncMode, Function, Label, Type, TypeInner};
use candid::types::TypeEnv;
use std::collections::BTreeMap;
use std::rc::Rc;

fn unraw(s: &str) -> String {
    s.strip_prefix("r#").unwrap_or(s).to_string()
}

fn serde_rename(attrs: &[syn::Attribute]) -> Option<String> {
    for a in attrs {
        if a.path().is_ident("serde") {
            let mut out = None;
            let _ = a.parse_nested_meta(|m| {
                if m.path.is_ident("rename") {
                    let v: syn::LitStr = m.value()?.parse()?;
                    out = Some(v.value());
                }
                Ok(())
            });
            if out.is_some() {
                return out;
            }
        }
    }
    None
}

thread_local! {
    /// read `_<n>_` identifiers as the numeric id the binding means by them (the derive macro reads them as names)
    static LENIENT: std::cell::Cell<bool> = std::cell::Cell::new(false);
    static SAW_NUMERIC_IDENT: std::cell::Cell<bool> = std::cell::Cell::new(false);
    static SAW_ONE_TUPLE: std::cell::Cell<bool> = std::cell::Cell::new(false);
}

/// one unnamed field written with a trailing comma: the binding means a one-field tuple record, the derive macro
/// reads a newtype
fn one_tuple(f: &syn::FieldsUnnamed) -> Result<Option<Type>, String> {
    if f.unnamed.len() == 1 && f.unnamed.trailing_punct() {
        SAW_ONE_TUPLE.with(|c| c.set(true));
        if LENIENT.with(|c| c.get()) {
            return Ok(Some(fields_unnamed(f)?));
        }
    }
    Ok(None)
}

fn label_of(ident: &str, rename: Option<String>) -> Label {
    if rename.is_none() && ident.len() >= 3 && ident.starts_with('_') && ident.ends_with('_') && ident[1..ident.len() - 1].chars().all(|c| c.is_ascii_digit()) {
        if let Ok(n) = ident[1..ident.len() - 1].parse::<u32>() {
            SAW_NUMERIC_IDENT.with(|c| c.set(true));
            if LENIENT.with(|c| c.get()) {
                return Label::Id(n);
            }
        }
    }
    Label::Named(rename.unwrap_or_else(|| unraw(ident)))
}

fn prim(name: &str) -> Option<TypeInner> {
    use TypeInner::*;
    Some(match name {
        "u8" => Nat8,
        "u16" => Nat16,
        "u32" => Nat32,
        "u64" => Nat64,
        "i8" => Int8,
        "i16" => Int16,
        "i32" => Int32,
        "i64" => Int64,
        "f32" => Float32,
        "f64" => Float64,
        "bool" => Bool,
        "String" => Text,
        _ => return None,
    })
}

pub fn ty_of(t: &syn::Type) -> Result<Type, String> {
    use TypeInner::{Empty, Int, Nat, Nat8, Null, Opt, Principal, Record, Reserved, Var, Variant};
    Ok(match t {
        syn::Type::Tuple(tt) => {
            if tt.elems.is_empty() {
                Null.into()
            } else {
                let mut fs = vec![];
                for (i, e) in tt.elems.iter().enumerate() {
                    fs.push(Field { id: Rc::new(Label::Id(i as u32)), ty: ty_of(e)? });
                }
                Record(fs).into()
            }
        }
        syn::Type::Reference(r) => ty_of(&r.elem)?,
        syn::Type::Path(p) => {
            let segs: Vec<String> = p.path.segments.iter().map(|s| s.ident.to_string()).collect();
            let last = p.path.segments.last().ok_or("empty path")?;
            let args: Vec<&syn::Type> = match &last.arguments {
                syn::PathArguments::AngleBracketed(a) => a.args.iter().filter_map(|g| if let syn::GenericArgument::Type(t) = g { Some(t) } else { None }).collect(),
                _ => vec![],
            };
            let full = segs.join("::");
            match full.as_str() {
                "candid::Nat" => Nat.into(),
                "candid::Int" => Int.into(),
                "candid::Reserved" => Reserved.into(),
                "candid::Empty" => Empty.into(),
                "Principal" | "candid::Principal" => Principal.into(),
                "serde_bytes::ByteBuf" => TypeInner::Vec(Nat8.into()).into(),
                "Option" if args.len() == 1 => Opt(ty_of(args[0])?).into(),
                "Vec" if args.len() == 1 => TypeInner::Vec(ty_of(args[0])?).into(),
                "Box" if args.len() == 1 => ty_of(args[0])?,
                "candid::MotokoResult" if args.len() == 2 => {
                    let mut fs = vec![
                        Field { id: Rc::new(Label::Named("ok".into())), ty: ty_of(args[0])? },
                        Field { id: Rc::new(Label::Named("err".into())), ty: ty_of(args[1])? },
                    ];
                    fs.sort_unstable_by_key(|f| f.id.get_id());
                    Variant(fs).into()
                }
                "std::result::Result" | "Result" if args.len() == 2 => {
                    // the binding prints `variant { Ok : T; Err : E }` as std::result::Result<T, E>
                    let mut fs = vec![
                        Field { id: Rc::new(Label::Named("Ok".into())), ty: ty_of(args[0])? },
                        Field { id: Rc::new(Label::Named("Err".into())), ty: ty_of(args[1])? },
                    ];
                    fs.sort_unstable_by_key(|f| f.id.get_id());
                    Variant(fs).into()
                }
                _ => {
                    if segs.len() == 1 && args.is_empty() {
                        match prim(&segs[0]) {
                            Some(p) => p.into(),
                            None => Var(unraw(&segs[0])).into(),
                        }
                    } else {
                        return Err(format!("unknown type path {full}"));
                    }
                }
            }
        }
        other => return Err(format!("unsupported type syntax {}", quote::quote!(#other))),
    })
}

fn fields_named(fs: &syn::FieldsNamed) -> Result<Type, String> {
    let mut out = vec![];
    for f in &fs.named {
        let ident = f.ident.as_ref().unwrap().to_string();
        out.push(Field { id: Rc::new(label_of(&ident, serde_rename(&f.attrs))), ty: ty_of(&f.ty)? });
    }
    sort_check(out).map(|fs| TypeInner::Record(fs).into())
}
fn fields_unnamed(fs: &syn::FieldsUnnamed) -> Result<Type, String> {
    let mut out = vec![];
    for (i, f) in fs.unnamed.iter().enumerate() {
        out.push(Field { id: Rc::new(Label::Id(i as u32)), ty: ty_of(&f.ty)? });
    }
    Ok(TypeInner::Record(out).into())
}
fn sort_check(mut fs: Vec<Field>) -> Result<Vec<Field>, String> {
    fs.sort_unstable_by_key(|f| f.id.get_id());
    for w in fs.windows(2) {
        if w[0].id.get_id() == w[1].id.get_id() {
            return Err("two fields with the same id".into());
        }
    }
    Ok(fs)
}

/// `(A, B) -> (C) query` inside define_function! / func!
fn parse_func_tokens(ts: proc_macro2::TokenStream) -> Result<Function, String> {
    let toks: Vec<proc_macro2::TokenTree> = ts.into_iter().collect();
    let mut groups = vec![];
    let mut modes = vec![];
    for t in &toks {
        match t {
            proc_macro2::TokenTree::Group(g) if g.delimiter() == proc_macro2::Delimiter::Parenthesis => groups.push(g.stream()),
            proc_macro2::TokenTree::Ident(i) => match i.to_string().as_str() {
                "query" => modes.push(FuncMode::Query),
                "oneway" => modes.push(FuncMode::Oneway),
                "composite_query" => modes.push(FuncMode::CompositeQuery),
                _ => {}
            },
            _ => {}
        }
    }
    if groups.len() != 2 {
        return Err("function signature".into());
    }
    let tys = |ts: proc_macro2::TokenStream| -> Result<Vec<Type>, String> {
        let parser = syn::punctuated::Punctuated::<syn::Type, syn::Token![,]>::parse_terminated;
        let p = syn::parse::Parser::parse2(parser, ts).map_err(|e| e.to_string())?;
        p.iter().map(ty_of).collect()
    };
    Ok(Function { modes, args: tys(groups[0].clone())?, rets: tys(groups[1].clone())? })
}

pub struct RustBinding {
    pub env: TypeEnv,
    /// method name (as called on the wire) -> (args, rets)
    pub methods: BTreeMap<String, (Vec<Type>, Vec<Type>)>,
    pub items: usize,
}

pub fn read_binding(src: &str) -> Result<RustBinding, String> {
    let file = syn::parse_file(src).map_err(|e| format!("not a Rust file: {e}"))?;
    let mut env = TypeEnv::new();
    let mut methods = BTreeMap::new();
    let mut items = 0;
    let mut define = |name: String, t: Type, env: &mut TypeEnv| -> Result<(), String> {
        if env.0.insert(name.clone(), t).is_some() {
            return Err(format!("the name {name} is defined twice"));
        }
        Ok(())
    };
    for item in &file.items {
        match item {
            syn::Item::Struct(s) => {
                let name = unraw(&s.ident.to_string());
                if name == "Service" {
                    continue;
                }
                items += 1;
                let t = match &s.fields {
                    syn::Fields::Named(f) => fields_named(f)?,
                    // the derive macro inlines a newtype to its inner type, a unit struct is `null`
                    syn::Fields::Unnamed(f) if f.unnamed.len() == 1 => match one_tuple(f)? {
                        Some(t) => t,
                        None => ty_of(&f.unnamed[0].ty)?,
                    },
                    syn::Fields::Unnamed(f) => fields_unnamed(f)?,
                    syn::Fields::Unit => TypeInner::Null.into(),
                };
                define(name, t, &mut env)?;
            }
            syn::Item::Enum(e) => {
                items += 1;
                let mut fs = vec![];
                for v in &e.variants {
                    let ident = v.ident.to_string();
                    let ty: Type = match &v.fields {
                        syn::Fields::Unit => TypeInner::Null.into(),
                        syn::Fields::Unnamed(f) if f.unnamed.len() == 1 => match one_tuple(f)? {
                            Some(t) => t,
                            None => ty_of(&f.unnamed[0].ty)?,
                        },
                        syn::Fields::Unnamed(f) => fields_unnamed(f)?,
                        syn::Fields::Named(f) => fields_named(f)?,
                    };
                    fs.push(Field { id: Rc::new(label_of(&ident, serde_rename(&v.attrs))), ty });
                }
                define(unraw(&e.ident.to_string()), TypeInner::Variant(sort_check(fs)?).into(), &mut env)?;
            }
            syn::Item::Type(t) => {
                items += 1;
                define(unraw(&t.ident.to_string()), ty_of(&t.ty)?, &mut env)?;
            }
            syn::Item::Macro(m) => {
                let path: Vec<String> = m.mac.path.segments.iter().map(|s| s.ident.to_string()).collect();
                let toks: Vec<proc_macro2::TokenTree> = m.mac.tokens.clone().into_iter().collect();
                // pub Name : <rest>
                let name_pos = toks.iter().position(|t| matches!(t, proc_macro2::TokenTree::Punct(p) if p.as_char() == ':')).ok_or("macro shape")?;
                let name = match &toks[name_pos - 1] {
                    proc_macro2::TokenTree::Ident(i) => unraw(&i.to_string()),
                    _ => return Err("macro name".into()),
                };
                let rest: proc_macro2::TokenStream = toks[name_pos + 1..].iter().cloned().collect();
                match path.last().map(|s| s.as_str()) {
                    Some("define_function") => {
                        items += 1;
                        define(name, TypeInner::Func(parse_func_tokens(rest)?).into(), &mut env)?;
                    }
                    Some("define_service") => {
                        items += 1;
                        // { "m" : candid::func!(sig); … }
                        let body = match rest.into_iter().next() {
                            Some(proc_macro2::TokenTree::Group(g)) => g.stream(),
                            _ => return Err("define_service body".into()),
                        };
                        let mut ms: Vec<(String, Type)> = vec![];
                        let bt: Vec<proc_macro2::TokenTree> = body.into_iter().collect();
                        let mut i = 0;
                        while i < bt.len() {
                            if let proc_macro2::TokenTree::Literal(l) = &bt[i] {
                                let lit: syn::LitStr = syn::parse_str(&l.to_string()).map_err(|e| e.to_string())?;
                                // skip ':' then either func!( … ) or a type name, up to ';'
                                let mut j = i + 2;
                                let mut chunk = vec![];
                                while j < bt.len() && !matches!(&bt[j], proc_macro2::TokenTree::Punct(p) if p.as_char() == ';') {
                                    chunk.push(bt[j].clone());
                                    j += 1;
                                }
                                let sig = chunk.iter().find_map(|t| if let proc_macro2::TokenTree::Group(g) = t { Some(g.stream()) } else { None });
                                let is_macro = chunk.iter().any(|t| matches!(t, proc_macro2::TokenTree::Punct(p) if p.as_char() == '!'));
                                let ty: Type = if is_macro {
                                    TypeInner::Func(parse_func_tokens(sig.ok_or("func! body")?)?).into()
                                } else {
                                    // `Name::ty()`: a method given by the name of a function type
                                    match chunk.first() {
                                        Some(proc_macro2::TokenTree::Ident(i)) => TypeInner::Var(unraw(&i.to_string())).into(),
                                        _ => return Err("method type".into()),
                                    }
                                };
                                ms.push((lit.value(), ty));
                                i = j + 1;
                            } else {
                                i += 1;
                            }
                        }
                        ms.sort_unstable_by(|a, b| a.0.cmp(&b.0));
                        define(name, TypeInner::Service(ms).into(), &mut env)?;
                    }
                    _ => {}
                }
            }
            syn::Item::Impl(im) => {
                for it in &im.items {
                    if let syn::ImplItem::Fn(f) = it {
                        // the wire name is the string literal passed to ic_cdk::call
                        struct Lits(Vec<String>);
                        impl<'ast> syn::visit::Visit<'ast> for Lits {
                            fn visit_lit_str(&mut self, l: &'ast syn::LitStr) {
                                self.0.push(l.value());
                            }
                        }
                        let mut lits = Lits(vec![]);
                        syn::visit::Visit::visit_block(&mut lits, &f.block);
                        let Some(wire) = lits.0.first().cloned() else { continue };
                        let mut args = vec![];
                        for a in f.sig.inputs.iter() {
                            if let syn::FnArg::Typed(pt) = a {
                                args.push(ty_of(&pt.ty)?);
                            }
                        }
                        let rets: Vec<Type> = match &f.sig.output {
                            syn::ReturnType::Default => vec![],
                            syn::ReturnType::Type(_, t) => {
                                // Result<(A, B,)>
                                match &**t {
                                    syn::Type::Path(p) => {
                                        let last = p.path.segments.last().unwrap();
                                        match &last.arguments {
                                            syn::PathArguments::AngleBracketed(a) => match a.args.first() {
                                                Some(syn::GenericArgument::Type(syn::Type::Tuple(tt))) => tt.elems.iter().map(ty_of).collect::<Result<Vec<_>, _>>()?,
                                                Some(syn::GenericArgument::Type(t)) => vec![ty_of(t)?],
                                                _ => vec![],
                                            },
                                            _ => vec![],
                                        }
                                    }
                                    _ => vec![],
                                }
                            }
                        };
                        if methods.insert(wire.clone(), (args, rets)).is_some() {
                            return Err(format!("method {wire} emitted twice"));
                        }
                    }
                }
            }
            _ => {}
        }
    }
    Ok(RustBinding { env, methods, items })
}

fn equal_in(env: &TypeEnv, t1: &Type, env2: &TypeEnv, t2: &Type) -> bool {
    use candid::types::subtype::{equal, Gamma};
    // the environment read back from the binding need not be well-formed (a newtype of itself is an alias cycle):
    // /repo's `equal` may then panic on its own unwraps; that is "not equal", not a finding about `equal`
    let (env, t1, env2, t2) = (env.clone(), t1.clone(), env2.clone(), t2.clone());
    crate::guarded(move || {
        let mut merged = env.clone();
        let t2r = merged.merge_type(env2, t2);
        let mut g = Gamma::new();
        equal(&mut g, &merged, &t1, &t2r).is_ok()
    })
    .unwrap_or(false)
}

// ---------------------------------------------------------------------------------------------------------------
// which Rust names the binding will use (mirror of the naming decisions of `nominalize` / `path_to_var` / `pp_var`):
// a program in which two of them coincide, or one coincides with a name the generated file uses itself, falls under
// the recorded finding KF-C18-name-collision

#[derive(Clone, PartialEq)]
enum PathElem {
    Id,
    Variant,
    Other,
}

fn upper_camel(id: &str) -> String {
    use convert_case::{Case, Casing};
    // generated names are already Pascal; user names go through to_upper_camel_case, which agrees with Pascal
    // conversion on collisions we care about closely enough for *detection* (any equal pair is a collision)
    if id.chars().all(|c| c.is_ascii_alphanumeric() || c == '_') && !id.is_empty() {
        let mut out = String::new();
        let mut up = true;
        for (i, c) in id.chars().enumerate() {
            if c == '_' {
                if i == 0 || i + 1 == id.len() {
                    out.push('_');
                }
                up = true;
            } else if up {
                out.push(c.to_ascii_uppercase());
                up = false;
            } else {
                out.push(c);
            }
        }
        out
    } else {
        id.to_case(Case::Pascal)
    }
}

fn is_tuple_fields(fs: &[Field]) -> bool {
    !fs.is_empty() && fs.iter().enumerate().all(|(i, f)| f.id.get_id() == i as u32)
}
fn is_result(fs: &[Field]) -> bool {
    fs.len() == 2
        && ((*fs[0].id == Label::Named("Ok".into()) && *fs[1].id == Label::Named("Err".into()))
            || (*fs[0].id == Label::Named("ok".into()) && *fs[1].id == Label::Named("err".into())))
}

fn name_walk(path: &mut Vec<(String, PathElem)>, t: &Type, names: &mut Vec<String>) {
    use convert_case::{Case, Casing};
    use TypeInner::*;
    let last = path.last().map(|p| p.1.clone());
    let fresh = |path: &std::vec::Vec<(String, PathElem)>| -> String { path.iter().map(|p| p.0.as_str()).collect::<std::vec::Vec<_>>().join("_").to_case(Case::Pascal) };
    match t.as_ref() {
        Opt(x) => {
            path.push(("inner".into(), PathElem::Other));
            name_walk(path, x, names);
            path.pop();
        }
        Vec(x) => {
            path.push(("item".into(), PathElem::Other));
            name_walk(path, x, names);
            path.pop();
        }
        Record(fs) => {
            if matches!(last, None | Some(PathElem::Variant) | Some(PathElem::Id)) || is_tuple_fields(fs) {
                for f in fs {
                    path.push((f.id.to_string(), PathElem::Other));
                    name_walk(path, &f.ty, names);
                    path.pop();
                }
            } else {
                let n = fresh(path);
                names.push(n.clone());
                name_walk(&mut vec![(n, PathElem::Id)], t, names);
            }
        }
        Variant(fs) => {
            let res = is_result(fs);
            if matches!(last, None | Some(PathElem::Id)) || res {
                for f in fs {
                    path.push((f.id.to_string(), if res { PathElem::Other } else { PathElem::Variant }));
                    name_walk(path, &f.ty, names);
                    path.pop();
                }
            } else {
                let n = fresh(path);
                names.push(n.clone());
                name_walk(&mut vec![(n, PathElem::Id)], t, names);
            }
        }
        Func(f) => {
            if matches!(last, None | Some(PathElem::Id)) {
                for (i, a) in f.args.iter().enumerate() {
                    path.push((format!("arg{}", if i == 0 { String::new() } else { i.to_string() }), PathElem::Other));
                    name_walk(path, a, names);
                    path.pop();
                }
                for (i, a) in f.rets.iter().enumerate() {
                    path.push((format!("ret{}", if i == 0 { String::new() } else { i.to_string() }), PathElem::Other));
                    name_walk(path, a, names);
                    path.pop();
                }
            } else {
                let n = fresh(path);
                names.push(n.clone());
                name_walk(&mut vec![(n, PathElem::Id)], t, names);
            }
        }
        Service(ms) => {
            if matches!(last, None | Some(PathElem::Id)) {
                for (m, x) in ms {
                    path.push((m.clone(), PathElem::Id));
                    name_walk(path, x, names);
                    path.pop();
                }
            } else {
                let n = fresh(path);
                names.push(n.clone());
                name_walk(&mut vec![(n, PathElem::Id)], t, names);
            }
        }
        Class(args, x) => {
            for a in args {
                path.push(("init".into(), PathElem::Other));
                name_walk(path, a, names);
                path.pop();
            }
            name_walk(path, x, names);
        }
        _ => {}
    }
}

pub fn has_name_collision(c: &c19::Checked) -> bool {
    let reserved = ["Principal", "Service", "Result", "Option", "Vec", "Box", "String", "CandidType", "Deserialize", "CallResult", "Self"];
    let mut names: Vec<String> = vec![];
    for (id, t) in c.env.0.iter() {
        names.push(id.clone());
        name_walk(&mut vec![(id.clone(), PathElem::Id)], t, &mut names);
    }
    if let Some(a) = &c.actor {
        name_walk(&mut vec![], a, &mut names);
    }
    let rust: Vec<String> = names.iter().map(|n| upper_camel(n)).collect();
    let mut seen = std::collections::BTreeSet::new();
    rust.iter().any(|n| reserved.contains(&n.as_str()) || !seen.insert(n.clone()))
}

fn reach(env: &TypeEnv, t: &Type, used: &mut std::collections::BTreeSet<String>) {
    use TypeInner::*;
    match t.as_ref() {
        Var(x) => {
            if used.insert(x.clone()) {
                if let Ok(d) = env.find_type(x) {
                    reach(env, d, used);
                }
            }
        }
        Opt(x) | Vec(x) => reach(env, x, used),
        Record(fs) | Variant(fs) => fs.iter().for_each(|f| reach(env, &f.ty, used)),
        Func(f) => f.args.iter().chain(f.rets.iter()).for_each(|x| reach(env, x, used)),
        Service(ms) => ms.iter().for_each(|(_, x)| reach(env, x, used)),
        Class(a, x) => {
            a.iter().for_each(|y| reach(env, y, used));
            reach(env, x, used)
        }
        _ => {}
    }
}

/// compare the binding text with the checked program; "ok" or the first difference
fn compare(c: &c19::Checked, text: &str, out: &mut Out) -> String {
    let b = match read_binding(text) {
        Ok(b) => b,
        Err(why) => {
            out.stat(&format!("unreadable:{}", &why[..why.len().min(40)]));
            return format!("err unreadable: {}", &why[..why.len().min(50)]);
        }
    };
    // every source definition the service uses has a structurally equal item (unused ones are not emitted)
    let mut used: std::collections::BTreeSet<String> = Default::default();
    match &c.actor {
        Some(a) => reach(&c.env, a, &mut used),
        None => used.extend(c.env.0.keys().cloned()),
    }
    for (name, _) in c.env.0.iter().filter(|(k, _)| used.contains(*k)) {
        let var: Type = TypeInner::Var(name.clone()).into();
        let found = b.env.0.keys().any(|k| {
            let rv: Type = TypeInner::Var(k.clone()).into();
            equal_in(&c.env, &var, &b.env, &rv)
        });
        if !found {
            return format!("err no item equal to definition {name}");
        }
    }
    if let Some(actor) = &c.actor {
        let Ok(ms) = c.env.as_service(actor) else { return "err actor".into() };
        for (m, ty) in ms {
            let Ok(f) = c.env.as_func(ty) else { return "err method".into() };
            let Some((args_r, rets_r)) = b.methods.get(m) else {
                return format!("err method {m:?} missing");
            };
            let same = |xs: &[Type], ys: &[Type]| xs.len() == ys.len() && xs.iter().zip(ys.iter()).all(|(x, y)| equal_in(&c.env, x, &b.env, y));
            if !same(&f.args, args_r) {
                return format!("err arguments of method {m:?} differ");
            }
            if !same(&f.rets, rets_r) {
                return format!("err results of method {m:?} differ");
            }
        }
    }
    "ok".into()
}

pub fn eval(out: &mut Out, op: &str, args: &[&str]) -> Option<String> {
    Some(match op {
        "rs.field" => {
            let name = String::from_utf8(sexp::unhx(args.first()?)?).ok()?;
            let camel = *args.get(1)? == "camel";
            let mut q = String::from("\"");
            for b in name.as_bytes() {
                q.push_str(&format!("\\{:02x}", b));
            }
            q.push('"');
            let src = if camel { format!("type T = variant {{ {q} : nat; zz_other : text }};") } else { format!("type T = record {{ {q} : nat }};") };
            let Some(c) = c19::check_src(&src) else { return Some("rejected".into()) };
            let text = match c19::run_gen("rust-call", &c) {
                Ok(t) => t,
                Err(_) => return Some("panic".into()),
            };
            let file = match syn::parse_file(&text) {
                Ok(f) => f,
                Err(_) => return Some("err not a Rust file".into()),
            };
            for item in &file.items {
                match item {
                    syn::Item::Struct(s) if !camel => {
                        if let syn::Fields::Named(f) = &s.fields {
                            if let Some(fld) = f.named.first() {
                                let ident = fld.ident.as_ref().unwrap().to_string();
                                let ren = serde_rename(&fld.attrs).map(|r| sexp::hx(r.as_bytes())).unwrap_or("none".into());
                                return Some(format!("ok {} {}", sexp::hx(ident.as_bytes()), ren));
                            }
                        }
                    }
                    syn::Item::Enum(e) if camel => {
                        for v in &e.variants {
                            let ren = serde_rename(&v.attrs);
                            let lab = label_of(&v.ident.to_string(), ren.clone());
                            if lab.get_id() != candid::idl_hash("zz_other") {
                                let ren = ren.map(|r| sexp::hx(r.as_bytes())).unwrap_or("none".into());
                                return Some(format!("ok {} {}", sexp::hx(v.ident.to_string().as_bytes()), ren));
                            }
                        }
                    }
                    _ => {}
                }
            }
            "err shape".into()
        }
        "rs.types" => {
            let src = String::from_utf8(sexp::unhx(args.first()?)?).ok()?;
            let Some(c) = c19::check_src(&src) else { return Some("rejected".into()) };
            let text = match c19::run_gen("rust-call", &c) {
                Ok(t) => t,
                Err(_) => return Some("panic".into()),
            };
            // first the reading the binding intends (`_5_` is the numeric id 5), then the derive macro's own reading
            let verdict = |lenient: bool, out: &mut Out| -> String {
                LENIENT.with(|c| c.set(lenient));
                let r = compare(&c, &text, out);
                LENIENT.with(|c| c.set(false));
                r
            };
            SAW_NUMERIC_IDENT.with(|c| c.set(false));
            SAW_ONE_TUPLE.with(|c| c.set(false));
            let intended = verdict(true, out);
            if intended != "ok" {
                if has_name_collision(&c) {
                    out.stat("name-collision");
                    return Some(format!("{intended} [name-collision]"));
                }
                return Some(intended);
            }
            let strict = verdict(false, out);
            if strict != "ok" {
                let mut why = vec![];
                if SAW_NUMERIC_IDENT.with(|c| c.get()) {
                    why.push("numeric-label");
                }
                if SAW_ONE_TUPLE.with(|c| c.get()) {
                    why.push("one-tuple");
                }
                out.stat(&format!("derive-reads-differently:{}", why.join("+")));
                return Some(format!("err the derive macro reads it differently: {}", why.join("+")));
            }
            "ok".into()
        }
        "rs.fields" => {
            // all named fields of one record / all tags of one variant: identifier and rename of each, in printed order
            let camel = *args.first()? == "camel";
            let mut names = vec![];
            for a in &args[1..] {
                names.push(String::from_utf8(sexp::unhx(a)?).ok()?);
            }
            let quoted = |name: &str| {
                let mut q = String::from("\"");
                for b in name.as_bytes() {
                    q.push_str(&format!("\\{:02x}", b));
                }
                q.push('"');
                q
            };
            let body: Vec<String> = names.iter().map(|n| format!("{} : nat", quoted(n))).collect();
            let src = format!("type T = {} {{ {} }};", if camel { "variant" } else { "record" }, body.join("; "));
            let Some(c) = c19::check_src(&src) else { return Some("rejected".into()) };
            let text = match c19::run_gen("rust-call", &c) {
                Ok(t) => t,
                Err(_) => return Some("panic".into()),
            };
            let file = match syn::parse_file(&text) {
                Ok(f) => f,
                Err(_) => return Some("err not a Rust file".into()),
            };
            let show = |ident: String, attrs: &[syn::Attribute]| {
                let ren = serde_rename(attrs).map(|r| sexp::hx(r.as_bytes())).unwrap_or("none".into());
                format!("{}:{}", sexp::hx(ident.as_bytes()), ren)
            };
            for item in &file.items {
                match item {
                    syn::Item::Struct(s) if !camel => {
                        if let syn::Fields::Named(f) = &s.fields {
                            let parts: Vec<String> = f.named.iter().map(|fld| show(fld.ident.as_ref().unwrap().to_string(), &fld.attrs)).collect();
                            return Some(format!("ok {}", parts.join(" ")));
                        }
                    }
                    syn::Item::Enum(e) if camel => {
                        let parts: Vec<String> = e.variants.iter().map(|v| show(v.ident.to_string(), &v.attrs)).collect();
                        return Some(format!("ok {}", parts.join(" ")));
                    }
                    _ => {}
                }
            }
            "err shape".into()
        }
        "rs.derive" => {
            let src = String::from_utf8(sexp::unhx(args.first()?)?).ok()?;
            let Some(c) = c19::check_src(&src) else { return Some("rejected".into()) };
            let text = match c19::run_gen("rust-call", &c) {
                Ok(t) => t,
                Err(_) => return Some("panic".into()),
            };
            match bindcheck_module(&text) {
                Ok((items, names)) => {
                    BINDCHECK.with(|b| b.borrow_mut().push((src, items, names)));
                    "deferred".into()
                }
                Err(why) => format!("err {why}"),
            }
        }
        _ => return None,
    })
}

thread_local! {
    /// programs whose emitted items go to the compile stage: (source, the items as Rust text, the names they define)
    pub static BINDCHECK: std::cell::RefCell<Vec<(String, String, Vec<String>)>> = std::cell::RefCell::new(vec![]);
}

/// the type definitions of a binding (everything but the service struct, its impl and its constants), re-printed from
/// the syntax tree, and the names they define
fn bindcheck_module(text: &str) -> Result<(String, Vec<String>), String> {
    use quote::ToTokens;
    let file = syn::parse_file(text).map_err(|e| format!("not a Rust file: {e}"))?;
    let mut out = String::new();
    let mut names = vec![];
    let derives = |attrs: &[syn::Attribute]| attrs.iter().any(|a| a.path().is_ident("derive"));
    for item in &file.items {
        match item {
            syn::Item::Struct(s) if derives(&s.attrs) => {
                names.push(s.ident.to_string());
                out.push_str(&item.to_token_stream().to_string());
                out.push('\n');
            }
            syn::Item::Enum(e) if derives(&e.attrs) => {
                names.push(e.ident.to_string());
                out.push_str(&item.to_token_stream().to_string());
                out.push('\n');
            }
            syn::Item::Type(t) => {
                names.push(t.ident.to_string());
                out.push_str(&item.to_token_stream().to_string());
                out.push('\n');
            }
            syn::Item::Macro(m) => {
                // candid::define_function!(pub Name : …) / candid::define_service!(pub Name : …)
                let mut it = m.mac.tokens.clone().into_iter();
                let _vis = it.next();
                if let Some(proc_macro2::TokenTree::Ident(id)) = it.next() {
                    names.push(id.to_string());
                }
                out.push_str(&item.to_token_stream().to_string());
                out.push('\n');
            }
            _ => {}
        }
    }
    Ok((out, names))
}

/// write the collected programs as one Rust file for `harness/bindcheck` (included there with `include!`)
pub fn write_bindcheck(dir: &str) {
    let progs = BINDCHECK.with(|b| b.borrow().clone());
    if progs.is_empty() {
        return;
    }
    let mut f = String::new();
    for (i, (_src, items, names)) in progs.iter().enumerate() {
        f.push_str(&format!("// PROGRAM {i}\npub mod p{i} {{\n#![allow(dead_code, unused_imports, non_camel_case_types, non_snake_case, non_upper_case_globals)]\nuse candid::{{self, CandidType, Deserialize, Principal}};\n{items}"));
        f.push_str("pub fn items() -> Vec<(&'static str, candid::types::Type)> { vec![");
        for n in names {
            f.push_str(&format!("({:?}, <{n} as candid::CandidType>::ty()),", n));
        }
        f.push_str("] }\n}\n");
    }
    f.push_str("pub fn all() -> Vec<Prog> { vec![\n");
    for (i, (src, _, _)) in progs.iter().enumerate() {
        f.push_str(&format!("Prog {{ idx: {i}, src: {:?}, items: p{i}::items }},\n", src));
    }
    f.push_str("] }\n");
    let _ = std::fs::write(format!("{dir}/bindcheck_gen.rs"), f);
}

pub fn run(ctx: &mut Ctx) {
    // identifiers: keywords, words that cannot be raw, case conversions, numeric-looking and non-ASCII names
    let fixed = [
        "self", "Self", "super", "crate", "_", "type", "fn", "match", "async", "try", "gen", "r#type", "fooBar", "foo_bar", "FooBar", "Foo_Bar", "foo__bar", "_foo", "foo_", "__a__",
        "ABC", "aB", "a_b", "a1", "A1b", "x", "X", "_5_", "_x_", "é", "a b", "1a", "Type", "Fn", "Match", "SELF", "selF", "sel_f", "Crate", "Super", "_A", "A_", "__A_B__",
    ];
    for name in fixed {
        for case in ["snake", "camel"] {
            ctx.emit(&format!("rs.field\t{}\t{case}", sexp::hx(name.as_bytes())), true);
        }
    }
    let m = if ctx.thorough { 30_000 } else { 1_500 };
    for _ in 0..m {
        let name = if ctx.rng.chance(1, 3) {
            crate::c11::hostile_name(ctx)
        } else {
            let k = ctx.rng.range(1, 6);
            (0..k).map(|_| *ctx.rng.pick(&['a', 'B', '_', 'c', 'D', '1', 's', 'e', 'l', 'f', 'S'])).collect()
        };
        if candid::idl_hash(&name) == 0 {
            // id 0 at position 0 is a tuple field, not a named one
            continue;
        }
        let case = if ctx.rng.chance(1, 2) { "snake" } else { "camel" };
        ctx.emit(&format!("rs.field\t{}\t{case}", sexp::hx(name.as_bytes())), true);
    }
    // whole field lists: labels that meet after case conversion, with and without raw identifiers
    let pools: [&[&str]; 4] = [
        &["fooBar", "foo_bar", "FooBar", "foo_bar_", "foo_bar__", "Foo_Bar", "fooBar_"],
        &["type", "Type", "type_", "TYPE", "r#type", "type__", "Type_"],
        &["self", "Self", "self_", "SELF", "Self_", "sel_f", "crate", "Crate", "crate_"],
        &["a", "A", "a_", "A_", "_a", "_A", "aB", "a_b", "AB", "Ab", "a_B", "ab"],
    ];
    let reps = if ctx.thorough { 4_000 } else { 300 };
    for k in 0..reps {
        let pool = pools[k % pools.len()];
        let n = ctx.rng.range(2, 7);
        let mut names: Vec<String> = vec![];
        for _ in 0..n {
            let cand = if ctx.rng.chance(1, 6) {
                let l = ctx.rng.range(1, 5);
                (0..l).map(|_| *ctx.rng.pick(&['a', 'B', '_', 't', 'y', 'p', 'e', 'T'])).collect::<String>()
            } else {
                ctx.rng.pick(pool).to_string()
            };
            if candid::idl_hash(&cand) != 0 && !names.iter().any(|x| candid::idl_hash(x) == candid::idl_hash(&cand)) {
                names.push(cand);
            }
        }
        if names.len() < 2 {
            continue;
        }
        // the generator prints fields in id order
        names.sort_by_key(|x| candid::idl_hash(x));
        let case = if ctx.rng.chance(1, 2) { "snake" } else { "camel" };
        let hexes: Vec<String> = names.iter().map(|x| sexp::hx(x.as_bytes())).collect();
        ctx.emit(&format!("rs.fields\t{case}\t{}", hexes.join("\t")), true);
    }
    // hand-written programs for the compile stage: keyword fields next to ordinary ones (the derive macro orders the
    // fields of a record by the hash of the label it computes), renames, recursive and anonymous nested types
    let fixed_progs = [
        r#"type Attribute = record { name : text; "type" : text; value : nat }; service : { describe : (Attribute) -> (Attribute) query }"#,
        r#"type K = record { "fn" : nat; "match" : text; "async" : bool; plain : int; "self" : nat8; "Self" : nat16; "crate" : nat32; "super" : nat64; "try" : text; "gen" : nat }; type V = variant { "type"; "fn" : K; other : opt V; "Self"; "self" : nat; "loop" : record { "while" : nat; zz : text; "for" : int } }; service : { get : (K) -> (V) }"#,
        r#"type L = opt record { head : nat; tail : L }; type T = record { fooBar : nat; foo_bar_ : text; "é" : int; "a b" : bool; "1a" : nat8 }; type F = func (T) -> (L) query; type S = service { f : F; "g h" : (L) -> () }; service : { m : (F, S) -> (T) }"#,
        r#"type N = record { a : record { b : variant { c : vec record { d : opt N }; e } }; f : record { nat; text } }; service : { n : (N, record { x : nat; "type" : N }) -> (variant { ok : N; err : text }) }"#,
        r#"type A = record { "abstract" : nat; "become" : nat; "box" : nat; "do" : nat; "final" : nat; "macro" : nat; "override" : nat; "priv" : nat; "typeof" : nat; "unsized" : nat; "virtual" : nat; "yield" : nat; "dyn" : nat; "await" : nat; "move" : nat; "ref" : nat; "mod" : nat; "use" : nat; "where" : nat; "impl" : nat; "trait" : nat; "struct" : nat; "enum" : nat; "static" : nat; "const" : nat; "unsafe" : nat; "extern" : nat; "pub" : nat; "in" : nat; "as" : nat; "let" : nat; "mut" : nat; "break" : nat; "continue" : nat; "return" : nat; "if" : nat; "else" : nat; "true" : nat; "false" : nat }; service : { a : (A) -> () }"#,
    ];
    for src in fixed_progs {
        let ans = ctx.emit(&format!("rs.types\t{}", sexp::hx(src.as_bytes())), true);
        if ans == "ok" {
            ctx.emit(&format!("rs.derive\t{}", sexp::hx(src.as_bytes())), true);
        } else {
            ctx.out.stat("fixed-program-not-ok");
        }
    }
    // whole programs
    let n = if ctx.thorough { 30_000 } else { 1_200 };
    let def_pool = ["a_b", "aB", "AB", "a", "b_c", "c", "ABC", "a_b_c", "Box", "Option", "Vec", "String", "Result", "Service", "Principal", "self_", "Self_", "fn_", "List", "list", "T0Inner", "Ab"];
    let field_pool = ["fooBar", "foo_bar", "FooBar", "type", "self", "Self", "super", "crate", "match", "c", "b_c", "a_b", "aB", "Ok", "Err", "ok", "err", "inner", "item", "arg0", "x_y", "xY"];
    for k in 0..n {
        let (decs, actor, _g, _d) = c14::gen_prog(ctx);
        // every third program: definition and field names that collide after case conversion, prelude names, keywords
        let (decs, actor) = if k % 3 == 0 {
            let mut tau = BTreeMap::new();
            for (nm, _) in &decs {
                if ctx.rng.chance(1, 2) {
                    let cand = ctx.rng.pick(&def_pool).to_string();
                    if !tau.values().any(|v| *v == cand) {
                        tau.insert(nm.clone(), cand);
                    }
                }
            }
            fn relabel(ctx: &mut Ctx, t: &Type, pool: &[&str]) -> Type {
                use TypeInner::*;
                let mut fields = |ctx: &mut Ctx, fs: &[Field]| -> std::vec::Vec<Field> {
                    let mut out: std::vec::Vec<Field> = vec![];
                    for f in fs {
                        let l = match f.id.as_ref() {
                            Label::Named(_) if ctx.rng.chance(1, 2) => Label::Named(ctx.rng.pick(pool).to_string()),
                            other => other.clone(),
                        };
                        if out.iter().any(|g| g.id.get_id() == l.get_id()) {
                            continue;
                        }
                        out.push(Field { id: Rc::new(l), ty: relabel(ctx, &f.ty, pool) });
                    }
                    out.sort_unstable_by_key(|f| f.id.get_id());
                    out
                };
                match t.as_ref() {
                    Opt(x) => Opt(relabel(ctx, x, pool)).into(),
                    Vec(x) => Vec(relabel(ctx, x, pool)).into(),
                    Record(fs) => Record(fields(ctx, fs)).into(),
                    Variant(fs) => Variant(fields(ctx, fs)).into(),
                    Func(f) => Func(Function { modes: f.modes.clone(), args: f.args.iter().map(|x| relabel(ctx, x, pool)).collect(), rets: f.rets.iter().map(|x| relabel(ctx, x, pool)).collect() }).into(),
                    Service(ms) => Service(ms.iter().map(|(n, x)| (n.clone(), relabel(ctx, x, pool))).collect()).into(),
                    Class(a, x) => Class(a.iter().map(|y| relabel(ctx, y, pool)).collect(), relabel(ctx, x, pool)).into(),
                    _ => t.clone(),
                }
            }
            let d2: std::vec::Vec<(String, Type)> = decs.iter().map(|(nm, t)| (tau.get(nm).cloned().unwrap_or(nm.clone()), relabel(ctx, &t.subst(&tau), &field_pool))).collect();
            let a2 = actor.map(|a| relabel(ctx, &a.subst(&tau), &field_pool));
            ctx.out.stat("adversarial-names");
            (d2, a2)
        } else {
            (decs, actor)
        };
        let Some(src) = c14::did_prog(&decs, &actor) else {
            ctx.out.stat("skipped");
            continue;
        };
        let ans = ctx.emit(&format!("rs.types\t{}", sexp::hx(src.as_bytes())), true);
        // a share of the programs whose binding reads back right go on to the compile stage: the items are compiled
        // with the real derive macro and `T::ty()` is compared with the source definitions
        let want = if ctx.thorough { 400 } else { 40 };
        let have = BINDCHECK.with(|b| b.borrow().len());
        let take = if ctx.thorough { k % 50 == 7 || k % 3 == 0 && k % 12 == 0 } else { k % 20 == 7 || k % 60 == 0 };
        if ans == "ok" && have < want && take {
            if let Some(c) = c19::check_src(&src) {
                if !has_name_collision(&c) {
                    ctx.emit(&format!("rs.derive\t{}", sexp::hx(src.as_bytes())), true);
                }
            }
        }
    }
}
