//! C14 — the type checker accepts exactly the well-formed programs.
//!   chk.prog <decs> <actor|->    declarations as written (an `(env …)` list, names may repeat, order kept) and the
//!                                main actor; the program is printed as .did text, parsed and checked by /repo.
//!                                answer: `accept` | `reject <class>`
//!   chk.names <(hex…)>           argument names of one tuple type: unique, or a parse error
//! Oracles without the model: a program well-formed by construction must be accepted, a single-fault mutant must be
//! rejected; on accepted programs every name traces, every method resolves, subtyping and equality of every
//! definition with itself terminate without panicking.
use crate::gen;
use crate::sexp;
use crate::{guarded, Ctx, Out};
use candid::types::internal::{Field, FuncMode, Function, Label, Type, TypeInner};
use candid::types::TypeEnv;
use std::rc::Rc;

fn q(s: &str) -> String {
    let mut o = String::from("\"");
    for b in s.as_bytes() {
        o.push_str(&format!("\\{:02x}", b));
    }
    o.push('"');
    o
}

fn ident_ok(s: &str) -> bool {
    let mut cs = s.chars();
    matches!(cs.next(), Some(c) if c.is_ascii_alphabetic() || c == '_')
        && cs.all(|c| c.is_ascii_alphanumeric() || c == '_')
        && !["true", "false", "null", "vec", "record", "variant", "func", "service", "oneway", "query", "composite_query", "blob", "type", "import", "opt", "principal"].contains(&s)
}

/// the harness's own printer (independent of /repo's pretty printer): explicit labels, quoted names
pub fn did_ty(t: &Type) -> Option<String> {
    use TypeInner::*;
    Some(match t.as_ref() {
        Null => "null".into(),
        Bool => "bool".into(),
        Nat => "nat".into(),
        Int => "int".into(),
        Nat8 => "nat8".into(),
        Nat16 => "nat16".into(),
        Nat32 => "nat32".into(),
        Nat64 => "nat64".into(),
        Int8 => "int8".into(),
        Int16 => "int16".into(),
        Int32 => "int32".into(),
        Int64 => "int64".into(),
        Float32 => "float32".into(),
        Float64 => "float64".into(),
        Text => "text".into(),
        Reserved => "reserved".into(),
        Empty => "empty".into(),
        Principal => "principal".into(),
        Var(x) => {
            if !ident_ok(x) {
                return None;
            }
            x.clone()
        }
        Opt(t) => format!("opt {}", did_ty(t)?),
        Vec(t) => format!("vec {}", did_ty(t)?),
        Record(fs) => format!("record {{ {} }}", did_fields(fs)?),
        Variant(fs) => format!("variant {{ {} }}", did_fields(fs)?),
        Func(f) => format!("func {}", did_func(f)?),
        Service(ms) => format!("service {}", did_meths(ms)?),
        _ => return None,
    })
}
fn did_fields(fs: &[Field]) -> Option<String> {
    let mut parts = vec![];
    for f in fs {
        let l = match f.id.as_ref() {
            Label::Id(n) | Label::Unnamed(n) => format!("{n}"),
            Label::Named(s) => q(s),
        };
        parts.push(format!("{l} : {}", did_ty(&f.ty)?));
    }
    Some(parts.join("; "))
}
fn did_tys(ts: &[Type]) -> Option<String> {
    let mut parts = vec![];
    for t in ts {
        parts.push(did_ty(t)?);
    }
    Some(format!("({})", parts.join(", ")))
}
fn did_func(f: &Function) -> Option<String> {
    let modes: String = f
        .modes
        .iter()
        .map(|m| match m {
            FuncMode::Oneway => " oneway",
            FuncMode::Query => " query",
            FuncMode::CompositeQuery => " composite_query",
        })
        .collect();
    Some(format!("{} -> {}{}", did_tys(&f.args)?, did_tys(&f.rets)?, modes))
}
fn did_meths(ms: &[(String, Type)]) -> Option<String> {
    let mut parts = vec![];
    for (n, t) in ms {
        let body = match t.as_ref() {
            TypeInner::Func(f) => did_func(f)?,
            TypeInner::Var(x) if ident_ok(x) => x.clone(),
            _ => return None,
        };
        parts.push(format!("{} : {}", q(n), body));
    }
    Some(format!("{{ {} }}", parts.join("; ")))
}

pub fn did_prog(decs: &[(String, Type)], actor: &Option<Type>) -> Option<String> {
    let mut s = String::new();
    for (n, t) in decs {
        if !ident_ok(n) {
            return None;
        }
        s.push_str(&format!("type {n} = {};\n", did_ty(t)?));
    }
    if let Some(a) = actor {
        let body = |t: &Type| -> Option<String> {
            match t.as_ref() {
                TypeInner::Service(ms) => did_meths(ms),
                TypeInner::Var(x) if ident_ok(x) => Some(x.clone()),
                _ => None,
            }
        };
        match a.as_ref() {
            TypeInner::Class(args, t) => s.push_str(&format!("service : {} -> {}\n", did_tys(args)?, body(t)?)),
            _ => s.push_str(&format!("service : {}\n", body(a)?)),
        }
    }
    Some(s)
}

pub fn classify(msg: &str) -> &'static str {
    if msg.contains("parser error") {
        "parse"
    } else if msg.contains("duplicate binding") {
        "duplicate"
    } else if msg.contains("Unbound type identifier") {
        "unbound"
    } else if msg.contains("more than one mode") || msg.contains("oneway function has non-unit") {
        "mode"
    } else if msg.contains("cyclic type definition") {
        "cycle"
    } else if msg.contains("non-function type") || msg.contains("not a function type") {
        "nonfunc"
    } else if msg.contains("not a service type") {
        "notservice"
    } else if msg.contains("service constructor not supported") {
        "class"
    } else {
        "other"
    }
}

/// decs of a request: the `(env …)` syntax, but order and repetitions are kept
pub fn to_decs(s: &sexp::S) -> Option<Vec<(String, Type)>> {
    match s {
        sexp::S::L(items) => {
            let mut out = vec![];
            for it in items.iter().skip(1) {
                match it {
                    sexp::S::L(kv) if kv.len() == 2 => {
                        let name = match &kv[0] {
                            sexp::S::A(h) => String::from_utf8(sexp::unhx(h)?).ok()?,
                            _ => return None,
                        };
                        out.push((name, sexp::to_ty(&kv[1])?));
                    }
                    _ => return None,
                }
            }
            Some(out)
        }
        _ => None,
    }
}
pub fn decs_sexp(decs: &[(String, Type)]) -> String {
    format!("(env{})", decs.iter().map(|(k, t)| format!(" ({} {})", sexp::hx(k.as_bytes()), sexp::ty(t))).collect::<String>())
}

fn downstream(out: &mut Out, env: &TypeEnv, actor: &Option<Type>, line: &str) {
    use candid::types::subtype::{equal, subtype, Gamma};
    let (e2, a2) = (env.clone(), actor.clone());
    let r = guarded(move || {
        for (k, t) in e2.0.iter() {
            e2.rec_find_type(k).map_err(|e| format!("rec_find_type {k}: {e}"))?;
            e2.trace_type(t).map_err(|e| format!("trace {k}: {e}"))?;
            let mut g = Gamma::new();
            subtype(&mut g, &e2, t, t).map_err(|e| format!("subtype {k}: {e}"))?;
            let mut g = Gamma::new();
            equal(&mut g, &e2, t, t).map_err(|e| format!("equal {k}: {e}"))?;
            if let Ok(ms) = e2.as_service(t) {
                for (m, _) in ms {
                    e2.get_method(t, m).map_err(|e| format!("get_method {k}.{m}: {e}"))?;
                }
            }
        }
        if let Some(a) = &a2 {
            for (m, _) in e2.as_service(a).map_err(|e| format!("actor: {e}"))? {
                e2.get_method(a, m).map_err(|e| format!("actor method {m}: {e}"))?;
            }
        }
        Ok::<(), String>(())
    });
    match r {
        Err(_) => out.oracle_failure("downstream use of an accepted environment panics", line),
        Ok(Err(why)) => out.oracle_failure(&format!("downstream use of an accepted environment fails ({})", &why[..why.len().min(40)]), line),
        Ok(Ok(())) => {}
    }
}

pub fn eval(out: &mut Out, op: &str, args: &[&str]) -> Option<String> {
    Some(match op {
        "chk.prog" => {
            let decs = to_decs(&sexp::parse(args.first()?)?)?;
            let actor = if *args.get(1)? == "-" { None } else { Some(sexp::to_ty(&sexp::parse(args[1])?)?) };
            let src = did_prog(&decs, &actor)?;
            let line = args.join("\t");
            let r = guarded(move || -> Result<(TypeEnv, Option<Type>), String> {
                let ast = src.parse::<candid_parser::IDLProg>().map_err(|e| e.to_string())?;
                let mut env = TypeEnv::new();
                let actor = candid_parser::check_prog(&mut env, &ast).map_err(|e| e.to_string())?;
                Ok((env, actor))
            });
            match r {
                Err(_) => "panic".into(),
                Ok(Err(msg)) => format!("reject {}", classify(&msg)),
                Ok(Ok((env, actor))) => {
                    downstream(out, &env, &actor, &line);
                    "accept".into()
                }
            }
        }
        "chk.names" => {
            let names: Vec<String> = match sexp::parse(args.first()?)? {
                sexp::S::L(xs) => xs
                    .iter()
                    .map(|x| match x {
                        sexp::S::A(h) => sexp::unhx(h).and_then(|b| String::from_utf8(b).ok()),
                        _ => None,
                    })
                    .collect::<Option<Vec<_>>>()?,
                _ => return None,
            };
            let tuple = names.iter().map(|n| format!("{} : nat", q(n))).collect::<Vec<_>>().join(", ");
            let srcs = [format!("type F = func ({tuple}) -> ();"), format!("type F = func () -> ({tuple});"), format!("service : ({tuple}) -> {{}}")];
            let mut verdicts = vec![];
            for src in srcs {
                let r = guarded(move || -> Result<(), String> {
                    let ast = src.parse::<candid_parser::IDLProg>().map_err(|e| e.to_string())?;
                    let mut env = TypeEnv::new();
                    candid_parser::check_prog(&mut env, &ast).map_err(|e| e.to_string())?;
                    Ok(())
                });
                verdicts.push(match r {
                    Err(_) => "panic".to_string(),
                    Ok(Err(msg)) => format!("reject {}", classify(&msg)),
                    Ok(Ok(())) => "accept".to_string(),
                });
            }
            if verdicts.iter().any(|v| *v != verdicts[0]) {
                out.oracle_failure("argument names are checked differently in args / results / init args", args[0]);
            }
            verdicts[0].clone()
        }
        _ => return None,
    })
}

// ------------------------------------------------------------------------------------------ generator

#[derive(Clone, Copy, PartialEq)]
enum Kind {
    Data,
    Func,
    Service,
    Alias(usize),
}

struct ProgGen {
    names: Vec<String>,
    kinds: Vec<Kind>,
}

impl ProgGen {
    fn denotes(&self, i: usize) -> Kind {
        match self.kinds[i] {
            Kind::Alias(j) => self.denotes(j),
            k => k,
        }
    }
    fn names_of(&self, k: Kind) -> Vec<String> {
        (0..self.names.len()).filter(|i| self.denotes(*i) == k).map(|i| self.names[i].clone()).collect()
    }
}

fn gen_service(ctx: &mut Ctx, g: &gen::TyGen, pg: &ProgGen, depth: u32) -> Vec<(String, Type)> {
    let mut ms = g.service(&mut ctx.rng, depth);
    let funcs = pg.names_of(Kind::Func);
    if !funcs.is_empty() && ctx.rng.chance(2, 3) {
        let nm = format!("via{}", ctx.rng.below(3));
        if !ms.iter().any(|m| m.0 == nm) {
            ms.push((nm, TypeInner::Var(ctx.rng.pick(&funcs).clone()).into()));
        }
    }
    if ctx.rng.chance(1, 4) {
        let nm = crate::c11::hostile_name(ctx);
        if !ms.iter().any(|m| m.0 == nm) {
            ms.push((nm, TypeInner::Func(g.func(&mut ctx.rng, depth)).into()));
        }
    }
    ms
}

/// a program well-formed by construction
pub fn gen_prog(ctx: &mut Ctx) -> (Vec<(String, Type)>, Option<Type>, gen::TyGen, Vec<String>) {
    let n = ctx.rng.range(0, 6) as usize;
    let names: Vec<String> = (0..n).map(|i| format!("T{i}")).collect();
    let mut kinds = vec![];
    for i in 0..n {
        kinds.push(match ctx.rng.below(8) {
            0 | 1 | 2 => Kind::Data,
            3 | 4 => Kind::Func,
            5 => Kind::Service,
            _ if i > 0 => Kind::Alias(ctx.rng.below(i as u64) as usize),
            _ => Kind::Data,
        });
    }
    let pg = ProgGen { names: names.clone(), kinds: kinds.clone() };
    let g = gen::TyGen { names: names.clone(), refs: true, named: true, max_fields: 3 };
    let mut decs = vec![];
    for i in 0..n {
        let t: Type = match kinds[i] {
            Kind::Data => loop {
                let t = g.ty(&mut ctx.rng, 2);
                if !matches!(t.as_ref(), TypeInner::Var(_)) {
                    break t;
                }
            },
            Kind::Func => TypeInner::Func(g.func(&mut ctx.rng, 2)).into(),
            Kind::Service => TypeInner::Service(gen_service(ctx, &g, &pg, 1)).into(),
            Kind::Alias(j) => TypeInner::Var(names[j].clone()).into(),
        };
        decs.push((names[i].clone(), t));
    }
    // source order is not name order
    if ctx.rng.chance(1, 2) {
        decs.reverse();
    }
    let actor: Option<Type> = match ctx.rng.below(5) {
        0 => None,
        1 | 2 => Some(TypeInner::Service(gen_service(ctx, &g, &pg, 1)).into()),
        3 => {
            let svcs = pg.names_of(Kind::Service);
            if svcs.is_empty() {
                Some(TypeInner::Service(vec![]).into())
            } else {
                Some(TypeInner::Var(ctx.rng.pick(&svcs).clone()).into())
            }
        }
        _ => {
            let svcs = pg.names_of(Kind::Service);
            let body: Type = if svcs.is_empty() || ctx.rng.chance(1, 2) {
                TypeInner::Service(gen_service(ctx, &g, &pg, 1)).into()
            } else {
                TypeInner::Var(ctx.rng.pick(&svcs).clone()).into()
            };
            let k = ctx.rng.below(3);
            Some(TypeInner::Class((0..k).map(|_| g.ty(&mut ctx.rng, 1)).collect(), body).into())
        }
    };
    let data: Vec<String> = (0..n).filter(|i| kinds[*i] == Kind::Data).map(|i| names[i].clone()).collect();
    (decs, actor, g, data)
}

/// put `bad` somewhere inside `t` (a random position that keeps the text printable)
fn plant(ctx: &mut Ctx, t: &Type, bad: &Type, depth: u32) -> Type {
    use TypeInner::*;
    let wrap = |ctx: &mut Ctx, bad: &Type| -> Type {
        match ctx.rng.below(4) {
            0 => Opt(bad.clone()).into(),
            1 => Vec(bad.clone()).into(),
            2 => Record(vec![Field { id: Rc::new(Label::Id(7)), ty: bad.clone() }]).into(),
            _ => Func(Function { modes: vec![], args: vec![bad.clone()], rets: vec![] }).into(),
        }
    };
    if depth == 0 {
        return wrap(ctx, bad);
    }
    match t.as_ref() {
        Opt(x) => Opt(plant(ctx, x, bad, depth - 1)).into(),
        Vec(x) => Vec(plant(ctx, x, bad, depth - 1)).into(),
        Record(fs) | Variant(fs) if !fs.is_empty() => {
            let i = ctx.rng.below(fs.len() as u64) as usize;
            let mut fs2 = fs.clone();
            fs2[i] = Field { id: fs[i].id.clone(), ty: plant(ctx, &fs[i].ty, bad, depth - 1) };
            if matches!(t.as_ref(), Record(_)) { Record(fs2).into() } else { Variant(fs2).into() }
        }
        Func(f) if !f.args.is_empty() => {
            let i = ctx.rng.below(f.args.len() as u64) as usize;
            let mut f2 = f.clone();
            f2.args[i] = plant(ctx, &f.args[i], bad, depth - 1);
            Func(f2).into()
        }
        Service(ms) if ms.iter().any(|m| matches!(m.1.as_ref(), Func(_))) => {
            let idx: std::vec::Vec<usize> = (0..ms.len()).filter(|i| matches!(ms[*i].1.as_ref(), Func(_))).collect();
            let i = *ctx.rng.pick(&idx);
            let mut ms2 = ms.clone();
            if let Func(f) = ms[i].1.as_ref() {
                let mut f2 = f.clone();
                f2.args.push(wrap(ctx, bad));
                ms2[i].1 = Func(f2).into();
            }
            Service(ms2).into()
        }
        _ => wrap(ctx, bad),
    }
}

fn emit_prog(ctx: &mut Ctx, decs: &[(String, Type)], actor: &Option<Type>, expect_accept: Option<bool>, what: &str) {
    if did_prog(decs, actor).is_none() {
        ctx.out.stat("unprintable-skipped");
        return;
    }
    let a = match actor {
        Some(t) => sexp::ty(t),
        None => "-".into(),
    };
    let line = format!("chk.prog\t{}\t{}", decs_sexp(decs), a);
    let ans = ctx.emit(&line, true);
    ctx.out.stat(&format!("kind:{what}"));
    match expect_accept {
        Some(true) if ans != "accept" => ctx.out.oracle_failure("a program well-formed by construction is rejected", &line),
        Some(false) if ans == "accept" => ctx.out.oracle_failure(&format!("a single-fault mutant is accepted ({what})"), &line),
        _ => {}
    }
}

pub fn run(ctx: &mut Ctx) {
    let n = if ctx.thorough { 60_000 } else { 2_500 };
    for _ in 0..n {
        let (decs, actor, g, data) = gen_prog(ctx);
        emit_prog(ctx, &decs, &actor, Some(true), "well-formed");
        // one mutant of this program
        let mut d2 = decs.clone();
        let mut a2 = actor.clone();
        let fresh = |s: &str| -> Type { TypeInner::Var(s.to_string()).into() };
        let pick_site = |ctx: &mut Ctx, d2: &mut std::vec::Vec<(String, Type)>, a2: &mut Option<Type>, bad: &Type| {
            // plant in a definition, in the actor's methods or in the init args
            let depth = ctx.rng.below(3) as u32;
            let choice = ctx.rng.below(3);
            if choice == 0 || d2.is_empty() {
                match a2.clone() {
                    Some(a) => match a.as_ref() {
                        TypeInner::Class(args, body) => {
                            let mut args2 = args.clone();
                            args2.push(plant(ctx, &TypeInner::Null.into(), bad, 0));
                            *a2 = Some(TypeInner::Class(args2, body.clone()).into());
                        }
                        TypeInner::Service(_) => *a2 = Some(plant(ctx, &a, bad, depth.max(1))),
                        _ => d2.push(("Extra".into(), plant(ctx, &TypeInner::Null.into(), bad, 0))),
                    },
                    None => d2.push(("Extra".into(), plant(ctx, &TypeInner::Null.into(), bad, 0))),
                }
            } else {
                // only definitions that denote data may change shape: the others are used as methods / actors
                let cands: std::vec::Vec<usize> = (0..d2.len()).filter(|i| data.contains(&d2[*i].0)).collect();
                if cands.is_empty() {
                    d2.push(("Extra".into(), plant(ctx, &TypeInner::Null.into(), bad, 0)));
                } else {
                    let i = *ctx.rng.pick(&cands);
                    let t = d2[i].1.clone();
                    d2[i].1 = plant(ctx, &t, bad, depth);
                }
            }
        };
        let what = match ctx.rng.below(11) {
            0 => {
                let bad = fresh("Undefined");
                pick_site(ctx, &mut d2, &mut a2, &bad);
                "undefined-name"
            }
            1 if !d2.is_empty() => {
                let i = ctx.rng.below(d2.len() as u64) as usize;
                let dup = if ctx.rng.chance(1, 2) { d2[i].clone() } else { (d2[i].0.clone(), TypeInner::Nat.into()) };
                let at = ctx.rng.below(d2.len() as u64 + 1) as usize;
                d2.insert(at, dup);
                "duplicate-definition"
            }
            2 => {
                let k = ctx.rng.range(1, 6) as usize;
                for j in 0..k {
                    d2.push((format!("C{j}"), fresh(&format!("C{}", (j + 1) % k))));
                }
                // sometimes entered from a well-formed looking alias
                if ctx.rng.chance(1, 2) {
                    d2.push(("Entry".into(), fresh("C0")));
                }
                "alias-cycle"
            }
            3 => {
                let (l1, l2) = match ctx.rng.below(3) {
                    0 => (Label::Id(5), Label::Id(5)),
                    1 => (Label::Named("a".into()), Label::Id(97)),
                    _ => (Label::Named("ok".into()), Label::Named("ok".into())),
                };
                let fs = vec![Field { id: Rc::new(l1), ty: TypeInner::Nat.into() }, Field { id: Rc::new(l2), ty: TypeInner::Text.into() }];
                let bad: Type = if ctx.rng.chance(1, 2) { TypeInner::Record(fs).into() } else { TypeInner::Variant(fs).into() };
                pick_site(ctx, &mut d2, &mut a2, &bad);
                "duplicate-label"
            }
            4 => {
                // a method that denotes a non-function through an alias chain
                let k = ctx.rng.range(0, 5) as usize;
                for j in 0..k {
                    d2.push((format!("N{j}"), fresh(&format!("N{}", j + 1))));
                }
                let end: Type = match ctx.rng.below(3) {
                    0 => TypeInner::Nat.into(),
                    1 => TypeInner::Service(vec![]).into(),
                    _ => TypeInner::Record(vec![]).into(),
                };
                d2.push((format!("N{k}"), end));
                // the alias is sometimes also used as an ordinary type before the method is reached (an earlier
                // method of the same service, an earlier definition): the walk has then already entered it
                let mut ms: std::vec::Vec<(String, Type)> = vec![("m".into(), fresh("N0"))];
                if ctx.rng.chance(1, 2) {
                    let user = ctx.rng.below(k as u64 + 1);
                    ms.insert(0, ("a_first".into(), TypeInner::Func(Function { modes: vec![], args: vec![fresh(&format!("N{user}"))], rets: vec![] }).into()));
                }
                if ctx.rng.chance(1, 3) {
                    let user = ctx.rng.below(k as u64 + 1);
                    d2.push(("Early".into(), TypeInner::Opt(fresh(&format!("N{user}"))).into()));
                }
                let bad: Type = TypeInner::Service(ms).into();
                pick_site(ctx, &mut d2, &mut a2, &bad);
                "non-function-method"
            }
            5 => {
                let bad: Type = TypeInner::Func(Function { modes: vec![FuncMode::Oneway], args: vec![], rets: vec![TypeInner::Nat.into()] }).into();
                pick_site(ctx, &mut d2, &mut a2, &bad);
                "oneway-with-result"
            }
            6 => {
                let m1 = ctx.rng.pick(&[FuncMode::Query, FuncMode::Oneway, FuncMode::CompositeQuery]).clone();
                let m2 = ctx.rng.pick(&[FuncMode::Query, FuncMode::Oneway, FuncMode::CompositeQuery]).clone();
                let bad: Type = TypeInner::Func(Function { modes: vec![m1, m2], args: vec![], rets: vec![] }).into();
                pick_site(ctx, &mut d2, &mut a2, &bad);
                "two-annotations"
            }
            7 => {
                d2.push(("NotSvc".into(), match ctx.rng.below(3) {
                    0 => TypeInner::Record(vec![]).into(),
                    1 => TypeInner::Func(Function { modes: vec![], args: vec![], rets: vec![] }).into(),
                    _ => TypeInner::Principal.into(),
                }));
                let body = fresh("NotSvc");
                a2 = Some(if ctx.rng.chance(1, 2) { body } else { TypeInner::Class(vec![], body).into() });
                "non-service-actor"
            }
            8 => {
                let f: Type = TypeInner::Func(g.func(&mut ctx.rng, 1)).into();
                let bad: Type = TypeInner::Service(vec![("dup".into(), f.clone()), ("dup".into(), f)]).into();
                pick_site(ctx, &mut d2, &mut a2, &bad);
                "duplicate-method"
            }
            9 => {
                a2 = Some(fresh("Undefined"));
                "undefined-actor"
            }
            _ => {
                // not a fault: an alias chain to a function used as a method, a function reached through itself
                let k = ctx.rng.range(0, 5) as usize;
                for j in 0..k {
                    d2.push((format!("F{j}"), fresh(&format!("F{}", j + 1))));
                }
                let inner: Type = TypeInner::Service(vec![("again".into(), fresh("F0"))]).into();
                d2.push((format!("F{k}"), TypeInner::Func(Function { modes: vec![], args: vec![inner], rets: vec![] }).into()));
                let ok: Type = TypeInner::Service(vec![("m".into(), fresh("F0"))]).into();
                pick_site(ctx, &mut d2, &mut a2, &ok);
                emit_prog(ctx, &d2, &a2, Some(true), "function-through-itself");
                continue;
            }
        };
        emit_prog(ctx, &d2, &a2, Some(false), what);
    }
    // argument names
    for _ in 0..(if ctx.thorough { 5_000 } else { 400 }) {
        let k = ctx.rng.range(0, 4);
        let names: std::vec::Vec<String> = (0..k).map(|_| ctx.rng.pick(&["a", "b", "c", "nat", "a b", ""]).to_string()).collect();
        let line = format!("chk.names\t({})", names.iter().map(|n| sexp::hx(n.as_bytes())).collect::<std::vec::Vec<_>>().join(" "));
        ctx.emit(&line, true);
    }
}
