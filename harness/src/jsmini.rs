//! A small evaluator for the JavaScript the binding generator emits: `export const f = ({ IDL }) => { … };` with
//! `const x = e;`, `x.fill(e);`, `return e;` and expressions over `IDL.*`, identifiers, `x.getType()`, arrays,
//! object literals and single-quoted strings.  It follows the JavaScript rules that matter here: `const` is in its
//! temporal dead zone until its declaration has run, a name is declared once, reserved words are not identifiers,
//! object keys `_<n>_` denote numeric field ids (the convention of the IDL builder the output is written for).
use candid::types::internal::{Field, FuncMode, Function, Label, Type, TypeInner};
use candid::types::TypeEnv;
use std::collections::BTreeMap;
use std::rc::Rc;

#[derive(Debug, Clone, PartialEq)]
pub enum Tok {
    Id(String),
    Str(String),
    P(&'static str),
}

const RESERVED: [&str; 47] = [
    "break", "case", "catch", "class", "const", "continue", "debugger", "default", "delete", "do", "else", "enum", "export", "extends", "false",
    "finally", "for", "function", "if", "import", "in", "instanceof", "new", "null", "return", "super", "switch", "this", "throw", "true", "try",
    "typeof", "var", "void", "while", "with", "yield", "let", "static", "implements", "interface", "package", "private", "protected", "public",
    "await", "arguments",
];

pub fn lex(src: &str) -> Result<Vec<Tok>, String> {
    let cs: Vec<char> = src.chars().collect();
    let mut i = 0;
    let mut out = vec![];
    while i < cs.len() {
        let c = cs[i];
        if c.is_whitespace() {
            i += 1;
        } else if c.is_ascii_alphabetic() || c == '_' || c == '$' {
            let s = i;
            while i < cs.len() && (cs[i].is_ascii_alphanumeric() || cs[i] == '_' || cs[i] == '$') {
                i += 1;
            }
            out.push(Tok::Id(cs[s..i].iter().collect()));
        } else if c == '\'' {
            i += 1;
            let mut s = String::new();
            loop {
                if i >= cs.len() {
                    return Err("unterminated string".into());
                }
                match cs[i] {
                    '\'' => {
                        i += 1;
                        break;
                    }
                    '\n' | '\r' => return Err("line break in string literal".into()),
                    '\\' => {
                        i += 1;
                        let e = *cs.get(i).ok_or("dangling backslash")?;
                        i += 1;
                        match e {
                            'n' => s.push('\n'),
                            'r' => s.push('\r'),
                            't' => s.push('\t'),
                            '\\' => s.push('\\'),
                            '\'' => s.push('\''),
                            '"' => s.push('"'),
                            '0' => {
                                if cs.get(i).map_or(false, |d| d.is_ascii_digit()) {
                                    return Err("octal escape in strict mode".into());
                                }
                                s.push('\0')
                            }
                            'u' => {
                                if cs.get(i) != Some(&'{') {
                                    return Err("bad \\u escape".into());
                                }
                                i += 1;
                                let st = i;
                                while i < cs.len() && cs[i] != '}' {
                                    i += 1;
                                }
                                let hex: String = cs[st..i.min(cs.len())].iter().collect();
                                i += 1;
                                let v = u32::from_str_radix(&hex, 16).map_err(|_| "bad \\u escape")?;
                                s.push(char::from_u32(v).ok_or("bad code point")?);
                            }
                            d if d.is_ascii_digit() => return Err("octal escape in strict mode".into()),
                            other => s.push(other),
                        }
                    }
                    ch => {
                        s.push(ch);
                        i += 1;
                    }
                }
            }
            out.push(Tok::Str(s));
        } else {
            let two: String = cs[i..(i + 2).min(cs.len())].iter().collect();
            if two == "=>" {
                out.push(Tok::P("=>"));
                i += 2;
                continue;
            }
            let p = match c {
                '=' => "=",
                '(' => "(",
                ')' => ")",
                '{' => "{",
                '}' => "}",
                '[' => "[",
                ']' => "]",
                ',' => ",",
                ';' => ";",
                '.' => ".",
                ':' => ":",
                other => return Err(format!("unexpected character {other:?}")),
            };
            out.push(Tok::P(p));
            i += 1;
        }
    }
    Ok(out)
}

#[derive(Debug, Clone)]
pub enum Stmt {
    Const(String, Expr),
    Fill(String, Expr),
    Return(Expr),
}
#[derive(Debug, Clone)]
pub enum Expr {
    Idl(String, Vec<Expr>, bool), // IDL.Name(args) / IDL.Name
    Ref(String, bool),            // x  /  x.getType()
    Arr(Vec<Expr>),
    Obj(Vec<(String, Expr)>),
    Str(String),
}

pub struct Parser {
    toks: Vec<Tok>,
    pos: usize,
}

impl Parser {
    fn peek(&self) -> Option<&Tok> {
        self.toks.get(self.pos)
    }
    fn next(&mut self) -> Option<Tok> {
        let t = self.toks.get(self.pos).cloned();
        self.pos += 1;
        t
    }
    fn expect_p(&mut self, p: &'static str) -> Result<(), String> {
        match self.next() {
            Some(Tok::P(q)) if q == p => Ok(()),
            other => Err(format!("expected {p:?}, found {other:?}")),
        }
    }
    fn ident(&mut self) -> Result<String, String> {
        match self.next() {
            Some(Tok::Id(s)) => {
                if RESERVED.contains(&s.as_str()) {
                    Err(format!("reserved word {s} used as an identifier"))
                } else {
                    Ok(s)
                }
            }
            other => Err(format!("expected identifier, found {other:?}")),
        }
    }
    fn kw(&mut self, k: &str) -> Result<(), String> {
        match self.next() {
            Some(Tok::Id(s)) if s == k => Ok(()),
            other => Err(format!("expected {k}, found {other:?}")),
        }
    }
    fn expr(&mut self) -> Result<Expr, String> {
        match self.next() {
            Some(Tok::Str(s)) => Ok(Expr::Str(s)),
            Some(Tok::P("[")) => {
                let mut items = vec![];
                loop {
                    if self.peek() == Some(&Tok::P("]")) {
                        self.pos += 1;
                        break;
                    }
                    items.push(self.expr()?);
                    match self.next() {
                        Some(Tok::P(",")) => {}
                        Some(Tok::P("]")) => break,
                        other => return Err(format!("in array: {other:?}")),
                    }
                }
                Ok(Expr::Arr(items))
            }
            Some(Tok::P("{")) => {
                let mut items = vec![];
                loop {
                    let key = match self.next() {
                        Some(Tok::P("}")) => break,
                        Some(Tok::Str(s)) => s,
                        Some(Tok::Id(s)) => s,
                        other => return Err(format!("object key: {other:?}")),
                    };
                    self.expect_p(":")?;
                    let v = self.expr()?;
                    if items.iter().any(|(k, _): &(String, Expr)| *k == key) {
                        // a later key silently replaces an earlier one in JavaScript: a field would be lost
                        return Err(format!("duplicate object key {key:?}"));
                    }
                    items.push((key, v));
                    match self.next() {
                        Some(Tok::P(",")) => {}
                        Some(Tok::P("}")) => break,
                        other => return Err(format!("in object: {other:?}")),
                    }
                }
                Ok(Expr::Obj(items))
            }
            Some(Tok::Id(s)) if s == "IDL" => {
                self.expect_p(".")?;
                let name = match self.next() {
                    Some(Tok::Id(n)) => n,
                    other => return Err(format!("after IDL.: {other:?}")),
                };
                if self.peek() == Some(&Tok::P("(")) {
                    self.pos += 1;
                    let mut args = vec![];
                    loop {
                        if self.peek() == Some(&Tok::P(")")) {
                            self.pos += 1;
                            break;
                        }
                        args.push(self.expr()?);
                        match self.next() {
                            Some(Tok::P(",")) => {}
                            Some(Tok::P(")")) => break,
                            other => return Err(format!("in call: {other:?}")),
                        }
                    }
                    Ok(Expr::Idl(name, args, true))
                } else {
                    Ok(Expr::Idl(name, vec![], false))
                }
            }
            Some(Tok::Id(s)) => {
                if RESERVED.contains(&s.as_str()) {
                    return Err(format!("reserved word {s} used as an identifier"));
                }
                if self.peek() == Some(&Tok::P(".")) {
                    self.pos += 1;
                    self.kw("getType")?;
                    self.expect_p("(")?;
                    self.expect_p(")")?;
                    Ok(Expr::Ref(s, true))
                } else {
                    Ok(Expr::Ref(s, false))
                }
            }
            other => Err(format!("expression: {other:?}")),
        }
    }
    /// `export const <name> = ({ IDL }) => { stmts };`
    fn factory(&mut self, name: &str) -> Result<Vec<Stmt>, String> {
        self.kw("export")?;
        self.kw("const")?;
        self.kw(name)?;
        self.expect_p("=")?;
        self.expect_p("(")?;
        self.expect_p("{")?;
        self.kw("IDL")?;
        self.expect_p("}")?;
        self.expect_p(")")?;
        self.expect_p("=>")?;
        self.expect_p("{")?;
        let mut stmts = vec![];
        loop {
            match self.peek().cloned() {
                Some(Tok::P("}")) => {
                    self.pos += 1;
                    self.expect_p(";")?;
                    break;
                }
                Some(Tok::Id(k)) if k == "const" => {
                    self.pos += 1;
                    let x = self.ident()?;
                    self.expect_p("=")?;
                    let e = self.expr()?;
                    self.expect_p(";")?;
                    stmts.push(Stmt::Const(x, e));
                }
                Some(Tok::Id(k)) if k == "return" => {
                    self.pos += 1;
                    let e = self.expr()?;
                    self.expect_p(";")?;
                    stmts.push(Stmt::Return(e));
                }
                Some(Tok::Id(_)) => {
                    let x = self.ident()?;
                    self.expect_p(".")?;
                    self.kw("fill")?;
                    self.expect_p("(")?;
                    let e = self.expr()?;
                    self.expect_p(")")?;
                    self.expect_p(";")?;
                    stmts.push(Stmt::Fill(x, e));
                }
                other => return Err(format!("statement: {other:?}")),
            }
        }
        Ok(stmts)
    }
}

pub fn parse_module(src: &str) -> Result<(Vec<Stmt>, Vec<Stmt>), String> {
    let mut p = Parser { toks: lex(src)?, pos: 0 };
    let f = p.factory("idlFactory")?;
    let i = p.factory("init")?;
    if p.pos != p.toks.len() {
        return Err("trailing tokens".into());
    }
    Ok((f, i))
}

fn key_label(k: &str) -> Label {
    // idlLabelToId of the IDL builder: `_<digits>_` is a numeric id
    if k.len() >= 3 && k.starts_with('_') && k.ends_with('_') && k[1..k.len() - 1].chars().all(|c| c.is_ascii_digit()) {
        if let Ok(n) = k[1..k.len() - 1].parse::<u32>() {
            return Label::Id(n);
        }
    }
    Label::Named(k.to_string())
}

/// what a block evaluates to: the definitions it made (as a Candid environment over the JavaScript names) and the
/// returned expression(s)
pub struct Evaluated {
    pub env: TypeEnv,
    pub ret: Vec<Type>,
}

pub fn eval_block(stmts: &[Stmt]) -> Result<Evaluated, String> {
    // declared names: Some(true) = Rec cell, Some(false) = const value
    let mut declared: BTreeMap<String, bool> = BTreeMap::new();
    let all_consts: Vec<String> = stmts.iter().filter_map(|s| if let Stmt::Const(x, _) = s { Some(x.clone()) } else { None }).collect();
    let mut filled: BTreeMap<String, bool> = BTreeMap::new();
    let mut env = TypeEnv::new();
    let mut ret = None;
    fn ty(e: &Expr, declared: &BTreeMap<String, bool>, all: &[String]) -> Result<Type, String> {
        use TypeInner::*;
        Ok(match e {
            Expr::Ref(x, get_type) => {
                if x == "IDL" {
                    return Err("IDL used as a type".into());
                }
                match declared.get(x) {
                    None if all.contains(x) => return Err(format!("ReferenceError: cannot access '{x}' before initialization")),
                    None => return Err(format!("ReferenceError: {x} is not defined")),
                    Some(is_rec) => {
                        if *get_type && !is_rec {
                            return Err(format!("TypeError: {x}.getType is not a function"));
                        }
                        Var(x.clone()).into()
                    }
                }
            }
            Expr::Idl(name, args, called) => {
                let prim = |t: TypeInner| -> Result<Type, String> {
                    if *called {
                        Err(format!("IDL.{name} is not a function"))
                    } else {
                        Ok(t.into())
                    }
                };
                match name.as_str() {
                    "Null" => prim(Null)?,
                    "Bool" => prim(Bool)?,
                    "Nat" => prim(Nat)?,
                    "Int" => prim(Int)?,
                    "Nat8" => prim(Nat8)?,
                    "Nat16" => prim(Nat16)?,
                    "Nat32" => prim(Nat32)?,
                    "Nat64" => prim(Nat64)?,
                    "Int8" => prim(Int8)?,
                    "Int16" => prim(Int16)?,
                    "Int32" => prim(Int32)?,
                    "Int64" => prim(Int64)?,
                    "Float32" => prim(Float32)?,
                    "Float64" => prim(Float64)?,
                    "Text" => prim(Text)?,
                    "Reserved" => prim(Reserved)?,
                    "Empty" => prim(Empty)?,
                    "Principal" => prim(Principal)?,
                    "Opt" | "Vec" if *called && args.len() == 1 => {
                        let t = ty(&args[0], declared, all)?;
                        if name == "Opt" { Opt(t).into() } else { Vec(t).into() }
                    }
                    "Tuple" if *called => {
                        let mut fs = vec![];
                        for (i, a) in args.iter().enumerate() {
                            fs.push(Field { id: Rc::new(Label::Id(i as u32)), ty: ty(a, declared, all)? });
                        }
                        Record(fs).into()
                    }
                    "Record" | "Variant" if *called && args.len() == 1 => {
                        let Expr::Obj(items) = &args[0] else { return Err("Record/Variant of a non-object".into()) };
                        let mut fs = vec![];
                        for (k, v) in items {
                            fs.push(Field { id: Rc::new(key_label(k)), ty: ty(v, declared, all)? });
                        }
                        fs.sort_unstable_by_key(|f| f.id.get_id());
                        for w in fs.windows(2) {
                            if w[0].id.get_id() == w[1].id.get_id() {
                                return Err("two fields with the same id".into());
                            }
                        }
                        if name == "Record" { Record(fs).into() } else { Variant(fs).into() }
                    }
                    "Func" if *called && args.len() == 3 => {
                        let list = |e: &Expr| -> Result<std::vec::Vec<Type>, String> {
                            let Expr::Arr(xs) = e else { return Err("Func expects arrays".into()) };
                            xs.iter().map(|x| ty(x, declared, all)).collect()
                        };
                        let Expr::Arr(ms) = &args[2] else { return Err("Func modes".into()) };
                        let mut modes = vec![];
                        for m in ms {
                            match m {
                                Expr::Str(s) if s == "query" => modes.push(FuncMode::Query),
                                Expr::Str(s) if s == "oneway" => modes.push(FuncMode::Oneway),
                                Expr::Str(s) if s == "composite_query" => modes.push(FuncMode::CompositeQuery),
                                other => return Err(format!("unknown annotation {other:?}")),
                            }
                        }
                        Func(Function { modes, args: list(&args[0])?, rets: list(&args[1])? }).into()
                    }
                    "Service" if *called && args.len() == 1 => {
                        let Expr::Obj(items) = &args[0] else { return Err("Service of a non-object".into()) };
                        let mut ms = vec![];
                        for (k, v) in items {
                            ms.push((k.clone(), ty(v, declared, all)?));
                        }
                        ms.sort_unstable_by(|a, b| a.0.cmp(&b.0));
                        Service(ms).into()
                    }
                    other => return Err(format!("IDL.{other}: unsupported use")),
                }
            }
            Expr::Arr(_) | Expr::Obj(_) | Expr::Str(_) => return Err("not a type expression".into()),
        })
    }
    for s in stmts {
        match s {
            Stmt::Const(x, e) => {
                if declared.contains_key(x) || x == "IDL" {
                    return Err(format!("SyntaxError: Identifier '{x}' has already been declared"));
                }
                if all_consts.iter().filter(|y| *y == x).count() > 1 {
                    return Err(format!("SyntaxError: Identifier '{x}' has already been declared"));
                }
                if matches!(e, Expr::Idl(n, a, true) if n == "Rec" && a.is_empty()) {
                    declared.insert(x.clone(), true);
                    filled.insert(x.clone(), false);
                } else {
                    let t = ty(e, &declared, &all_consts)?;
                    declared.insert(x.clone(), false);
                    env.0.insert(x.clone(), t);
                }
            }
            Stmt::Fill(x, e) => {
                match declared.get(x) {
                    Some(true) => {}
                    Some(false) => return Err(format!("TypeError: {x}.fill is not a function")),
                    None => return Err(format!("ReferenceError: {x} is not defined")),
                }
                if filled.get(x) == Some(&true) {
                    return Err(format!("{x} filled twice"));
                }
                let t = ty(e, &declared, &all_consts)?;
                filled.insert(x.clone(), true);
                env.0.insert(x.clone(), t);
            }
            Stmt::Return(e) => {
                let r = match e {
                    Expr::Arr(xs) => xs.iter().map(|x| ty(x, &declared, &all_consts)).collect::<Result<Vec<_>, _>>()?,
                    other => vec![ty(other, &declared, &all_consts)?],
                };
                ret = Some(r);
            }
        }
    }
    if let Some((x, _)) = filled.iter().find(|(_, f)| !**f) {
        return Err(format!("Rec {x} is never filled"));
    }
    Ok(Evaluated { env, ret: ret.ok_or("no return")? })
}

pub fn plan(stmts: &[Stmt]) -> String {
    let mut cells: Vec<String> = vec![];
    let mut body: Vec<String> = vec![];
    for s in stmts {
        match s {
            Stmt::Const(x, Expr::Idl(n, a, true)) if n == "Rec" && a.is_empty() => cells.push(x.clone()),
            Stmt::Const(x, _) => body.push(format!("const {x}")),
            Stmt::Fill(x, _) => body.push(format!("fill {x}")),
            Stmt::Return(_) => {}
        }
    }
    cells.sort();
    format!("rec {}|{}", cells.join(" "), body.join("|"))
}
