//! An independent look at a message, used only to decide whether it can be sent to an entry point that runs without a
//! decoding quota (and to the specification's reader, which reads every wire value in full): does it announce a huge
//! number of zero-sized vector elements?  A few bytes can say "2^40 values of type null"; decoding that is work
//! proportional to the announced length, which the properties bound only under a quota.
//!
//! This walker does not use the decoder under test (a change to the decoder's cost accounting must not be able to
//! hide inputs from the checks): it reads the type table with its own little parser and follows the values by their
//! wire types.  Whatever it cannot read is "not a bomb": the real decoders then report the error themselves.

const LIMIT: u64 = 2_000_000;

#[derive(Clone, Debug)]
enum T {
    Prim(i64),
    Opt(i64),
    Vec(i64),
    Record(Vec<i64>),
    Variant(Vec<i64>),
    Func,
    Service,
    Future,
}

struct Rd<'a> {
    b: &'a [u8],
    p: usize,
}
impl<'a> Rd<'a> {
    fn byte(&mut self) -> Option<u8> {
        let x = *self.b.get(self.p)?;
        self.p += 1;
        Some(x)
    }
    fn leb(&mut self) -> Option<u64> {
        let mut r: u64 = 0;
        let mut shift = 0u32;
        loop {
            let x = self.byte()?;
            if shift >= 64 && (x & 0x7f) != 0 {
                return None;
            }
            if shift < 64 {
                r |= ((x & 0x7f) as u64).checked_shl(shift).unwrap_or(0);
            }
            shift += 7;
            if x & 0x80 == 0 {
                return Some(r);
            }
            if shift > 70 {
                return None;
            }
        }
    }
    fn sleb(&mut self) -> Option<i64> {
        let mut r: i64 = 0;
        let mut shift = 0u32;
        loop {
            let x = self.byte()?;
            if shift < 64 {
                r |= ((x & 0x7f) as i64).checked_shl(shift).unwrap_or(0);
            }
            shift += 7;
            if x & 0x80 == 0 {
                if shift < 64 && (x & 0x40) != 0 {
                    r |= (!0i64).checked_shl(shift).unwrap_or(0);
                }
                return Some(r);
            }
            if shift > 70 {
                return None;
            }
        }
    }
    fn skip(&mut self, n: u64) -> Option<()> {
        let n = usize::try_from(n).ok()?;
        if self.p.checked_add(n)? > self.b.len() {
            return None;
        }
        self.p += n;
        Some(())
    }
    /// skip an unbounded number: bytes up to and including the first one without continuation bit
    fn skip_leb(&mut self) -> Option<()> {
        loop {
            if self.byte()? & 0x80 == 0 {
                return Some(());
            }
        }
    }
}

fn table(r: &mut Rd) -> Option<(Vec<T>, Vec<i64>)> {
    if r.b.get(0..4)? != b"DIDL" {
        return None;
    }
    r.p = 4;
    let n = r.leb()?;
    if n > 20_000 {
        return None;
    }
    let mut tys = vec![];
    for _ in 0..n {
        let op = r.sleb()?;
        tys.push(match op {
            -18 => T::Opt(r.sleb()?),
            -19 => T::Vec(r.sleb()?),
            -20 | -21 => {
                let k = r.leb()?;
                if k > r.b.len() as u64 {
                    return None;
                }
                let mut fs = vec![];
                for _ in 0..k {
                    r.leb()?;
                    fs.push(r.sleb()?);
                }
                if op == -20 {
                    T::Record(fs)
                } else {
                    T::Variant(fs)
                }
            }
            -22 => {
                for _ in 0..2 {
                    let k = r.leb()?;
                    if k > r.b.len() as u64 {
                        return None;
                    }
                    for _ in 0..k {
                        r.sleb()?;
                    }
                }
                let k = r.leb()?;
                r.skip(k)?;
                T::Func
            }
            -23 => {
                let k = r.leb()?;
                if k > r.b.len() as u64 {
                    return None;
                }
                for _ in 0..k {
                    let l = r.leb()?;
                    r.skip(l)?;
                    r.sleb()?;
                }
                T::Service
            }
            x if x < -24 => {
                let l = r.leb()?;
                r.skip(l)?;
                T::Future
            }
            _ => return None,
        });
    }
    let na = r.leb()?;
    if na > r.b.len() as u64 {
        return None;
    }
    let mut args = vec![];
    for _ in 0..na {
        args.push(r.sleb()?);
    }
    Some((tys, args))
}

fn resolve(tys: &[T], i: i64) -> Option<T> {
    if i >= 0 {
        tys.get(i as usize).cloned()
    } else {
        Some(T::Prim(i))
    }
}

/// does a value of this type occupy no bytes at all?
fn zero_sized(tys: &[T], i: i64, depth: usize) -> bool {
    if depth > 64 {
        return false;
    }
    match resolve(tys, i) {
        Some(T::Prim(-1)) | Some(T::Prim(-16)) => true, // null, reserved
        Some(T::Record(fs)) => fs.iter().all(|f| zero_sized(tys, *f, depth + 1)),
        _ => false,
    }
}

/// walk one value; `count` accumulates the announced zero-sized vector elements
fn walk(tys: &[T], i: i64, r: &mut Rd, count: &mut u64, depth: usize) -> Option<()> {
    if depth > 300 || *count > LIMIT {
        return None;
    }
    match resolve(tys, i)? {
        T::Prim(p) => match p {
            -1 | -16 => Some(()),
            -2 | -5 | -9 => r.skip(1),
            -3 | -4 => r.skip_leb(),
            -6 | -10 => r.skip(2),
            -7 | -11 | -13 => r.skip(4),
            -8 | -12 | -14 => r.skip(8),
            -15 => {
                let l = r.leb()?;
                r.skip(l)
            }
            -17 => None,
            -24 => {
                r.skip(1)?;
                let l = r.leb()?;
                r.skip(l)
            }
            _ => None,
        },
        T::Opt(t) => match r.byte()? {
            0 => Some(()),
            1 => walk(tys, t, r, count, depth + 1),
            _ => None,
        },
        T::Vec(t) => {
            let n = r.leb()?;
            if zero_sized(tys, t, 0) {
                *count = count.saturating_add(n);
                return Some(());
            }
            // elements that occupy bytes are bounded by the length of the message
            for _ in 0..n {
                walk(tys, t, r, count, depth + 1)?;
            }
            Some(())
        }
        T::Record(fs) => {
            for f in fs {
                walk(tys, f, r, count, depth + 1)?;
            }
            Some(())
        }
        T::Variant(fs) => {
            let k = r.leb()?;
            walk(tys, *fs.get(usize::try_from(k).ok()?)?, r, count, depth + 1)
        }
        T::Func => {
            r.skip(1)?;
            r.skip(1)?;
            let l = r.leb()?;
            r.skip(l)?;
            let l = r.leb()?;
            r.skip(l)
        }
        T::Service => {
            r.skip(1)?;
            let l = r.leb()?;
            r.skip(l)
        }
        T::Future => {
            let l = r.leb()?;
            r.leb()?;
            r.skip(l)
        }
    }
}

/// more than two million zero-sized vector elements announced by the values of this message?
pub fn announces_zero_sized_flood(bytes: &[u8]) -> bool {
    let mut r = Rd { b: bytes, p: 0 };
    let Some((tys, args)) = table(&mut r) else { return false };
    let mut count = 0u64;
    for a in args {
        if walk(&tys, a, &mut r, &mut count, 0).is_none() {
            break;
        }
    }
    count > LIMIT
}

#[cfg(test)]
mod tests {
    #[test]
    fn flood() {
        // vec null with 2^42 elements inside a record
        let b = hex::decode("4449444c036c02030104026d7f6e75027c008080806d80808080808001020192274f6d").unwrap();
        assert!(super::announces_zero_sized_flood(&b));
        // vec null × 1000
        let b = hex::decode("4449444c016d7f0100e807").unwrap();
        assert!(!super::announces_zero_sized_flood(&b));
    }
}
