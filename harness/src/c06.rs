//! C06 — decoding arbitrary bytes never panics, crashes or over-allocates.
//! Uses the ops of C02 / C07 (`wire.decodeSelf`, `wire.decode`, `de.decode`) on hostile inputs: the outcome
//! class (value / error / quota error / panic) is compared with the model, in debug and release builds.
//! Oracle on the implementation: with a decoding quota q the number of bytes allocated for the result stays
//! below a constant plus a multiple of the input length plus q (measured through the size of the result).
use crate::c02;
use crate::c07;
use crate::gen;
use crate::sexp;
use crate::Ctx;
use candid::types::internal::{Type, TypeInner};
use candid::types::TypeEnv;

fn quotas(ctx: &mut Ctx) -> (Option<usize>, Option<usize>) {
    let pick = |ctx: &mut Ctx| match ctx.rng.below(7) {
        0 => None,
        1 => Some(0),
        2 => Some(1),
        3 => Some(10),
        4 => Some(1_000),
        5 => Some(100_000),
        _ => Some(ctx.rng.below(5_000) as usize),
    };
    (pick(ctx), pick(ctx))
}

fn emit_de(ctx: &mut Ctx, b: &[u8], env: &TypeEnv, tys: &[Type], dq: Option<usize>, sq: Option<usize>) {
    let show = |c: Option<usize>| c.map(|x| x.to_string()).unwrap_or_else(|| "-".into());
    ctx.emit(
        &format!("de.decode\t{}\t{}\t{}\t{}\t{}", sexp::hx(b), sexp::env(env), sexp::tys(tys), show(dq), show(sq)),
        true,
    );
}

fn leb(mut n: u64) -> Vec<u8> {
    let mut o = vec![];
    loop {
        let b = (n & 0x7f) as u8;
        n >>= 7;
        if n == 0 {
            o.push(b);
            return o;
        }
        o.push(b | 0x80);
    }
}

/// declared lengths around every arithmetic boundary, for vectors of every primitive element size,
/// text, blob and zero-sized elements — always metered
fn length_bombs(ctx: &mut Ctx) {
    let none = TypeEnv::new();
    let elems: [(u8, TypeInner); 8] = [
        (0x7f, TypeInner::Null),
        (0x70, TypeInner::Reserved),
        (0x7e, TypeInner::Bool),
        (0x7b, TypeInner::Nat8),
        (0x7a, TypeInner::Nat16),
        (0x79, TypeInner::Nat32),
        (0x78, TypeInner::Nat64),
        (0x7d, TypeInner::Nat),
    ];
    let mut lens: Vec<u64> = vec![0, 1, 2, 1000, 1 << 20, u32::MAX as u64, (1 << 32) + 1];
    for k in [31u32, 32, 59, 60, 61, 62, 63] {
        for d in [-3i64, -2, -1, 0, 1, 2] {
            lens.push(((1u64 << k) as i64).wrapping_add(d) as u64);
        }
    }
    lens.push(u64::MAX / 11);
    lens.push(u64::MAX / 11 + 1);
    lens.push(u64::MAX / 8);
    lens.push(u64::MAX);
    for (code, elem) in elems.iter() {
        for &n in &lens {
            let mut m = b"DIDL\x01\x6d".to_vec();
            m.push(*code);
            m.extend_from_slice(b"\x01\x00");
            m.extend(leb(n));
            m.extend_from_slice(&[1, 0, 1, 0, 1, 0, 1, 0]);
            let t: Type = TypeInner::Vec(elem.clone().into()).into();
            // metered always: an unmetered vector of 2^60 zero-sized elements really is iterated
            for (dq, sq) in [(Some(1_000usize), Some(1_000usize)), (Some(50_000), None), (None, Some(300))] {
                let zero_sized = matches!(elem, TypeInner::Null | TypeInner::Reserved);
                if zero_sized && dq.is_none() && n > 100_000 {
                    continue;
                }
                emit_de(ctx, &m, &none, &[t.clone()], dq, sq);
                emit_de(ctx, &m, &none, &[], dq, sq);
                emit_de(ctx, &m, &none, &[TypeInner::Opt(TypeInner::Text.into()).into()], dq, sq);
            }
            if !matches!(elem, TypeInner::Null | TypeInner::Reserved) || n <= 1000 {
                ctx.emit(&format!("wire.decodeSelf\t{}", sexp::hx(&m)), true);
            }
        }
    }
    // text / blob lengths
    for &n in &lens {
        let mut m = b"DIDL\x00\x01\x71".to_vec();
        m.extend(leb(n));
        m.extend_from_slice(b"abc");
        ctx.emit(&format!("wire.decodeSelf\t{}", sexp::hx(&m)), true);
        emit_de(ctx, &m, &none, &[TypeInner::Text.into()], Some(1000), Some(1000));
    }
}

/// deep nesting in the type table and in values: far beyond any stack (both sides must answer with an error)
fn deep(ctx: &mut Ctx) {
    let none = TypeEnv::new();
    for depth in [100usize, 1_500] {
        // table: entry i = opt (i+1), last = opt null; value: `depth` ones then a zero
        let mut m = b"DIDL".to_vec();
        m.extend(leb(depth as u64));
        for i in 0..depth {
            m.push(0x6e);
            if i + 1 < depth {
                m.extend(leb_s((i + 1) as i64));
            } else {
                m.push(0x7f);
            }
        }
        m.extend_from_slice(b"\x01\x00");
        m.extend(std::iter::repeat(1u8).take(depth - 1));
        m.push(0);
        ctx.emit(&format!("wire.decodeSelf\t{}", sexp::hx(&m)), true);
        emit_de(ctx, &m, &none, &[], Some(1 << 30), Some(1 << 30));
        emit_de(ctx, &m, &none, &[TypeInner::Reserved.into()], None, None);
    }
    // vec of vec of … with one element each, depth 9000
    {
        let depth = 1_500usize;
        let mut m = b"DIDL".to_vec();
        m.extend(leb(depth as u64));
        for i in 0..depth {
            m.push(0x6d);
            if i + 1 < depth {
                m.extend(leb_s((i + 1) as i64));
            } else {
                m.push(0x7f);
            }
        }
        m.extend_from_slice(b"\x01\x00");
        m.extend(std::iter::repeat(1u8).take(depth));
        ctx.emit(&format!("wire.decodeSelf\t{}", sexp::hx(&m)), true);
        emit_de(ctx, &m, &none, &[], Some(1 << 30), None);
    }
}

/// recursive types give unbounded value depth with a two-entry table: far beyond any stack, both sides
/// must answer with an error (the Rust through its stack guard, the model through its fuel)
fn deep_recursive(ctx: &mut Ctx) {
    let none = TypeEnv::new();
    let depth = 400_000usize;
    // type O = opt O ; value: `depth` ones
    let mut m = b"DIDL\x01\x6e\x00\x01\x00".to_vec();
    m.extend(std::iter::repeat(1u8).take(depth));
    m.push(0);
    ctx.emit(&format!("wire.decodeSelf\t{}", sexp::hx(&m)), true);
    emit_de(ctx, &m, &none, &[], Some(1 << 40), Some(1 << 40));
    // type V = vec V ; value: one element at every level
    let mut m = b"DIDL\x01\x6d\x00\x01\x00".to_vec();
    m.extend(std::iter::repeat(1u8).take(depth));
    m.push(0);
    ctx.emit(&format!("wire.decodeSelf\t{}", sexp::hx(&m)), true);
    emit_de(ctx, &m, &none, &[], Some(1 << 40), None);
}

fn leb_s(mut v: i64) -> Vec<u8> {
    let mut o = vec![];
    loop {
        let b = (v & 0x7f) as u8;
        v >>= 7;
        let done = (v == 0 && b & 0x40 == 0) || (v == -1 && b & 0x40 != 0);
        if done {
            o.push(b);
            return o;
        }
        o.push(b | 0x80);
    }
}

/// values of future types (an opcode below -24 in the table; a value is: payload length, number of references, the
/// payload): every combination of declared length, length of the references number (padded LEB128) and payload
/// actually present around the end of the input, alone, before another argument and inside a record
fn future_values(ctx: &mut Ctx) {
    let none = TypeEnv::new();
    let pad = |n: u64, extra: usize| -> Vec<u8> {
        // LEB128 of n with `extra` padding groups
        let mut v = leb(n);
        if extra > 0 {
            let last = v.len() - 1;
            v[last] |= 0x80;
            for _ in 0..extra - 1 {
                v.push(0x80);
            }
            v.push(0x00);
        }
        v
    };
    for opcode in [0x67u8, 0x5f, 0x40] {
        for declared in 0u64..6 {
            for refs_extra in 0usize..4 {
                for present in 0usize..8 {
                    for shape in 0..3 {
                        // table: 0 = future; 1 = record { 0 : future; 1 : nat8 }
                        let mut m = b"DIDL\x02".to_vec();
                        m.extend_from_slice(&[opcode, 0x00]);
                        m.extend_from_slice(&[0x6c, 0x02, 0x00, 0x00, 0x01, 0x7b]);
                        let mut val = pad(declared, 0);
                        val.extend(pad(0, refs_extra));
                        val.extend(std::iter::repeat(0xabu8).take(present));
                        match shape {
                            0 => {
                                m.extend_from_slice(&[0x01, 0x00]);
                                m.extend(&val);
                            }
                            1 => {
                                m.extend_from_slice(&[0x02, 0x00, 0x71]);
                                m.extend(&val);
                            }
                            _ => {
                                m.extend_from_slice(&[0x01, 0x01]);
                                m.extend(&val);
                            }
                        }
                        ctx.emit(&format!("wire.decodeSelf\t{}", sexp::hx(&m)), true);
                        emit_de(ctx, &m, &none, &[], Some(10_000), Some(10_000));
                        emit_de(ctx, &m, &none, &[TypeInner::Reserved.into()], None, None);
                        emit_de(ctx, &m, &none, &[TypeInner::Reserved.into(), TypeInner::Text.into()], Some(10_000), None);
                    }
                }
            }
        }
    }
}

/// LEB128 of `v` padded with `pad` continuation groups of zero (unsigned) — any total length
fn leb_padded(mut v: u128, pad: usize) -> Vec<u8> {
    let mut o = vec![];
    loop {
        let b = (v & 0x7f) as u8;
        v >>= 7;
        if v == 0 && pad == 0 {
            o.push(b);
            return o;
        }
        o.push(b | 0x80);
        if v == 0 {
            break;
        }
    }
    for _ in 1..pad {
        o.push(0x80);
    }
    o.push(0x00);
    o
}

/// signed LEB128 of a negative number padded with `pad` groups of ones
fn sleb_neg_padded(pad: usize, low: u8) -> Vec<u8> {
    let mut o = vec![0x80 | (low & 0x7f)];
    for _ in 1..pad {
        o.push(0xff);
    }
    o.push(0x7f);
    o
}

/// native decoding of hostile inputs at every corpus type: the call has to return (value or error), with and
/// without quotas — `nat.total` (the model's answer is the claim itself: "returned")
fn native_totality(ctx: &mut Ctx) {
    let names = crate::c01::corpus_names();
    // (1) numbers in padded (S)LEB128 of every length around the 64- and 128-bit shifts, as `nat` and as `int`,
    //     alone, in an option and in a vector, offered to every corpus type
    let pads = [0usize, 1, 2, 8, 9, 10, 11, 17, 18, 19, 20, 21, 22, 30, 40, 64];
    let vals: [u128; 7] = [0, 1, 127, u64::MAX as u128, (u64::MAX as u128) + 1, u128::MAX >> 1, u128::MAX];
    let mut msgs: Vec<Vec<u8>> = vec![];
    for &p in &pads {
        for &v in &vals {
            let body = leb_padded(v, p);
            for code in [0x7du8, 0x7c] {
                let mut m = b"DIDL\x00\x01".to_vec();
                m.push(code);
                m.extend(&body);
                msgs.push(m);
                // opt <num> with a value
                let mut m = b"DIDL\x01\x6e".to_vec();
                m.push(code);
                m.extend([0x01, 0x00, 0x01]);
                m.extend(&body);
                msgs.push(m);
                // vec <num> with two elements
                let mut m = b"DIDL\x01\x6d".to_vec();
                m.push(code);
                m.extend([0x01, 0x00, 0x02]);
                m.extend(&body);
                m.extend(&body);
                msgs.push(m);
            }
        }
        let body = sleb_neg_padded(p.max(1), 0x7f);
        let mut m = b"DIDL\x00\x01\x7c".to_vec();
        m.extend(&body);
        msgs.push(m);
    }
    let numeric: Vec<&String> = names
        .iter()
        .filter(|n| ["u128", "i128", "Nat", "Int"].iter().any(|k| n.contains(k)))
        .collect();
    for m in &msgs {
        for n in &numeric {
            ctx.emit(&format!("nat.total\t{}\t{}", n, sexp::hx(m)), true);
        }
    }
    // (2) every corpus type: its own encodings, mutated
    let rounds = if ctx.thorough { 60 } else { 3 };
    for _ in 0..rounds {
        for (i, n) in names.iter().enumerate() {
            let Some(b0) = crate::c01::corpus_encode(i, &mut ctx.rng) else { continue };
            let mut b = b0;
            for _ in 0..ctx.rng.range(1, 4) {
                b = c02::mutate(ctx, &b);
            }
            if crate::bomb::announces_zero_sized_flood(&b) {
                ctx.out.stat("skipped:message-announces-zero-sized-flood");
                continue;
            }
            ctx.emit(&format!("nat.total\t{}\t{}", n, sexp::hx(&b)), true);
        }
    }
}

pub fn run(ctx: &mut Ctx) {
    native_totality(ctx);
    length_bombs(ctx);
    future_values(ctx);
    deep(ctx);
    deep_recursive(ctx);
    let n = if ctx.thorough { 60_000 } else { 2_000 };
    for _ in 0..n {
        let refs = ctx.rng.chance(1, 3);
        let Some((m, g)) = c02::message(ctx, refs) else { continue };
        // structure-aware mutations, several rounds, decoded with random quotas at related / unrelated types
        let mut b = m.bytes.clone();
        for _ in 0..ctx.rng.range(1, 4) {
            b = c02::mutate(ctx, &b);
        }
        let (dq, sq) = quotas(ctx);
        emit_de(ctx, &b, &m.env, &m.tys, dq, sq);
        let t2: Vec<Type> = m.tys.iter().map(|t| gen::step(&mut ctx.rng, &g, t, true, 2)).collect();
        let (dq, sq) = quotas(ctx);
        emit_de(ctx, &b, &m.env, &t2, dq, sq);
        ctx.emit(&format!("wire.decodeSelf\t{}", sexp::hx(&b)), true);
        if ctx.rng.chance(1, 3) {
            // pure noise after a valid magic
            let mut r = b"DIDL".to_vec();
            let k = ctx.rng.range(0, 24) as usize;
            r.extend(ctx.rng.bytes(k));
            ctx.emit(&format!("wire.decodeSelf\t{}", sexp::hx(&r)), true);
            let (dq, sq) = quotas(ctx);
            emit_de(ctx, &r, &m.env, &m.tys, dq, sq);
        }
    }
    let _ = c07::decode;
}
