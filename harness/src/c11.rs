//! C11 / C12 / C13 — Candid text.  Ops (model: lean/CandidModel/Driver/Text.lean):
//!   txt.lex <hex src>               the string sub-lexer on the text after an opening quote (real Tokenizer)
//!   txt.roundtrip <hex s> <hex p>   p = Display of Text(s) by the real printer; answer: p parsed back by the real parser
//!   txt.blobrt <hex b> <hex p>      p = Debug of Blob(b); parsed back
//!   txt.numrt <decimal>             pp_num_str + number token
//!   txt.numtok <hex token>          a Decimal/Hex token through the Number rule
//!   txt.identrt <hex name> <hex p>  p = printer's spelling of a field name; parsed back as a type field
//!   txt.number <spec>               numbering of positional record fields (value grammar and type grammar)
//!   txt.total <entry> <hex src>     any of the parse entry points on any input: never panics
//!   txt.value <env> <ty> <val>      print (Display, Debug) / parse / annotate round trip of a value (oracle only)
//!   txt.prog <env> <actor>          print (.did) / parse / check round trip of an interface (oracle only)
use crate::gen;
use crate::sexp;
use crate::{guarded, Ctx, Out};
use candid::types::internal::{Field, Label, Type, TypeInner};
use candid::types::value::{IDLField, IDLValue, VariantValue};
use candid::types::TypeEnv;
use candid::IDLArgs;
use candid_parser::token::{Token, Tokenizer};
use candid_parser::{parse_idl_args, parse_idl_value};

fn hexs(s: &str) -> String {
    sexp::hx(s.as_bytes())
}
fn unhexs(h: &str) -> Option<String> {
    String::from_utf8(sexp::unhx(h)?).ok()
}

pub const ENTRIES: [&str; 8] = ["prog", "type", "types", "initargs", "test", "args", "value", "check"];

fn parse_entry(entry: &str, src: &str) -> bool {
    use candid_parser::syntax::{IDLInitArgs, IDLProg, IDLType, IDLTypes};
    match entry {
        "prog" => src.parse::<IDLProg>().is_ok(),
        "type" => src.parse::<IDLType>().is_ok(),
        "types" => src.parse::<IDLTypes>().is_ok(),
        "initargs" => src.parse::<IDLInitArgs>().is_ok(),
        "test" => src.parse::<candid_parser::test::Test>().is_ok(),
        "args" => parse_idl_args(src).is_ok(),
        "value" => parse_idl_value(src).is_ok(),
        _ => match src.parse::<IDLProg>() {
            Ok(p) => {
                let mut env = TypeEnv::new();
                candid_parser::check_prog(&mut env, &p).is_ok()
            }
            Err(_) => false,
        },
    }
}

pub fn eval(out: &mut Out, op: &str, args: &[&str]) -> Option<String> {
    Some(match op {
        "txt.lex" => {
            let body = unhexs(args.first()?)?;
            let src = format!("\"{body}");
            match guarded(move || {
                let mut t = Tokenizer::new(&src);
                match t.next() {
                    Some(Ok((_, Token::Text(s), end))) => Some((s.into_bytes(), src[end..].to_string())),
                    _ => None,
                }
            }) {
                Err(_) => "panic".into(),
                Ok(None) => "err".into(),
                Ok(Some((b, rest))) => format!("ok {} {}", sexp::hx(&b), hexs(&rest)),
            }
        }
        "txt.roundtrip" => {
            let p = unhexs(args.get(1)?)?;
            match guarded(move || parse_idl_value(&p)) {
                Err(_) => "panic".into(),
                Ok(Ok(IDLValue::Text(t))) => format!("ok {} shape:true", hexs(&t)),
                Ok(_) => "err shape:true".into(),
            }
        }
        "txt.blobrt" => {
            let p = unhexs(args.get(1)?)?;
            match guarded(move || parse_idl_value(&p)) {
                Err(_) => "panic".into(),
                Ok(Ok(IDLValue::Blob(b))) => format!("ok {} same:true", sexp::hx(&b)),
                Ok(_) => "err same:true".into(),
            }
        }
        "txt.numrt" => {
            let d = args.first()?.to_string();
            let p = candid::utils::pp_num_str(&d);
            let p2 = p.clone();
            match guarded(move || parse_idl_value(&p2)) {
                Err(_) => "panic".into(),
                Ok(Ok(IDLValue::Number(n))) => format!("ok {p} {n}"),
                Ok(_) => format!("err {p}"),
            }
        }
        "txt.numtok" => {
            let tok = unhexs(args.first()?)?;
            match guarded(move || parse_idl_value(&tok)) {
                Err(_) => "panic".into(),
                Ok(Ok(IDLValue::Number(n))) => format!("ok {n}"),
                Ok(_) => "err".into(),
            }
        }
        "txt.identrt" => {
            let name = unhexs(args.first()?)?;
            let p = unhexs(args.get(1)?)?;
            let quoted = p.starts_with('"');
            let src = format!("record {{ {p} : nat }}");
            match guarded(move || {
                let ast = src.parse::<candid_parser::syntax::IDLType>().ok()?;
                let env = TypeEnv::new();
                let t = candid_parser::typing::ast_to_type(&env, &ast).ok()?;
                match t.as_ref() {
                    TypeInner::Record(fs) if fs.len() == 1 => match fs[0].id.as_ref() {
                        Label::Named(n) => Some(n.clone()),
                        _ => None,
                    },
                    _ => None,
                }
            }) {
                Err(_) => "panic".into(),
                Ok(None) => "err".into(),
                Ok(Some(back)) => {
                    if back != name {
                        out.oracle_failure("a field name does not survive print + parse", &args.join("\t"));
                    }
                    format!("ok {} quoted:{}", hexs(&back), quoted)
                }
            }
        }
        "txt.number" => {
            // the same list of fields through the value grammar and the type grammar
            let spec = sexp::parse(args.first()?)?;
            let items: Vec<String> = match &spec {
                sexp::S::L(xs) => xs
                    .iter()
                    .map(|x| match x {
                        sexp::S::A(a) => a.clone(),
                        _ => String::new(),
                    })
                    .collect(),
                _ => return None,
            };
            let lab = |a: &str| -> Option<String> {
                if a == "_" {
                    return Some(String::new());
                }
                match sexp::parse_label(a)? {
                    Label::Id(n) | Label::Unnamed(n) => Some(format!("{n}")),
                    Label::Named(s) => {
                        let mut o = String::from("\"");
                        for b in s.as_bytes() {
                            o.push_str(&format!("\\{:02x}", b));
                        }
                        o.push('"');
                        Some(o)
                    }
                }
            };
            let mut vparts = vec![];
            let mut tparts = vec![];
            for a in &items {
                let l = lab(a)?;
                if l.is_empty() {
                    vparts.push("null".to_string());
                    tparts.push("null".to_string());
                } else {
                    vparts.push(format!("{l} = null"));
                    tparts.push(format!("{l} : null"));
                }
            }
            let vsrc = format!("record {{ {} }}", vparts.join("; "));
            let tsrc = format!("record {{ {} }}", tparts.join("; "));
            let v = guarded(move || match parse_idl_value(&vsrc) {
                Ok(IDLValue::Record(fs)) => Some(fs.iter().map(|f| f.id.get_id().to_string()).collect::<Vec<_>>().join(" ")),
                _ => None,
            });
            let t = guarded(move || {
                let ast = tsrc.parse::<candid_parser::syntax::IDLType>().ok()?;
                let t = candid_parser::typing::ast_to_type(&TypeEnv::new(), &ast).ok()?;
                match t.as_ref() {
                    TypeInner::Record(fs) => Some(fs.iter().map(|f| f.id.get_id().to_string()).collect::<Vec<_>>().join(" ")),
                    _ => None,
                }
            });
            if v != t {
                out.oracle_failure("value grammar and type grammar number the same fields differently", args[0]);
            }
            match v {
                Err(_) => "panic".into(),
                Ok(None) => "err".into(),
                Ok(Some(ids)) => format!("ok {ids}"),
            }
        }
        "txt.total" => {
            let entry = args.first()?.to_string();
            let src = unhexs(args.get(1)?)?;
            match guarded(move || parse_entry(&entry, &src)) {
                Err(_) => "panic".into(),
                Ok(_) => "nopanic".into(),
            }
        }
        "txt.value" => {
            let env = sexp::to_env(&sexp::parse(args.first()?)?)?;
            let ty = sexp::to_ty(&sexp::parse(args.get(1)?)?)?;
            let v = sexp::to_val(&sexp::parse(args.get(2)?)?)?;
            let line = args.join("\t");
            let a = IDLArgs { args: vec![v.clone()] };
            let canon = sexp::vals(&a.args, true);
            for (how, text) in [
                ("Display", guarded({ let a = a.clone(); move || format!("{a}") })),
                ("Debug", guarded({ let a = a.clone(); move || format!("{a:?}") })),
                ("Display(value)", guarded({ let v = v.clone(); move || format!("({v})") })),
            ] {
                let Ok(text) = text else {
                    out.oracle_failure(&format!("{how} panics"), &line);
                    continue;
                };
                let (e2, t2, txt) = (env.clone(), ty.clone(), text.clone());
                match guarded(move || parse_idl_args(&txt).and_then(|p| Ok(p.annotate_types(true, &e2, &[t2])?))) {
                    Ok(Ok(back)) => {
                        if sexp::vals(&back.args, true) != canon {
                            out.oracle_failure(&format!("{how} output parses to a different value"), &format!("{line}\t{}", hexs(&text)));
                        }
                    }
                    Ok(Err(_)) => out.oracle_failure(&format!("{how} output does not parse / annotate"), &format!("{line}\t{}", hexs(&text))),
                    Err(_) => out.oracle_failure(&format!("parsing {how} output panics"), &format!("{line}\t{}", hexs(&text))),
                }
                // printing is deterministic
                let again = if how == "Debug" { format!("{a:?}") } else if how == "Display" { format!("{a}") } else { format!("({v})") };
                if again != text {
                    out.oracle_failure("printing the same value twice differs", &line);
                }
            }
            "ok".into()
        }
        "txt.prog" => {
            let env = sexp::to_env(&sexp::parse(args.first()?)?)?;
            let actor = sexp::to_ty(&sexp::parse(args.get(1)?)?)?;
            let line = args.join("\t");
            let (e2, a2) = (env.clone(), actor.clone());
            let Ok(src) = guarded(move || candid::pretty::candid::compile(&e2, &Some(a2))) else {
                out.oracle_failure("compile panics", &line);
                return Some("ok".into());
            };
            if candid::pretty::candid::compile(&env, &Some(actor.clone())) != src {
                out.oracle_failure("printing an interface twice differs", &line);
            }
            let s2 = src.clone();
            let res = guarded(move || -> Result<(TypeEnv, Option<Type>), String> {
                let ast = s2.parse::<candid_parser::IDLProg>().map_err(|e| format!("parse: {e}"))?;
                let mut env2 = TypeEnv::new();
                let actor2 = candid_parser::check_prog(&mut env2, &ast).map_err(|e| format!("check: {e}"))?;
                Ok((env2, actor2))
            });
            match res {
                Err(_) => out.oracle_failure("re-parsing a printed interface panics", &format!("{line}\t{}", hexs(&src))),
                Ok(Err(why)) => out.oracle_failure(&format!("printed interface does not re-check ({})", &why[..why.len().min(40)]), &format!("{line}\t{}", hexs(&src))),
                Ok(Ok((env2, actor2))) => {
                    use candid::types::subtype::{equal, Gamma};
                    // every definition and the service are structurally equal to the originals
                    let mut merged = env.clone();
                    let mut ok = true;
                    for (k, t2) in &env2.0 {
                        let Some(t1) = env.0.get(k) else { ok = false; continue };
                        let t2r = merged.merge_type(env2.clone(), t2.clone());
                        let mut g = Gamma::new();
                        if equal(&mut g, &merged, t1, &t2r).is_err() {
                            ok = false;
                        }
                    }
                    match actor2 {
                        Some(a2) => {
                            let a2r = merged.merge_type(env2.clone(), a2);
                            let mut g = Gamma::new();
                            if equal(&mut g, &merged, &actor, &a2r).is_err() {
                                ok = false;
                            }
                        }
                        None => ok = false,
                    }
                    if !ok {
                        out.oracle_failure("re-checked interface is not equal to the original", &format!("{line}\t{}", hexs(&src)));
                    }
                    // the syntax-tree printer round-trips too
                    let s3 = src.clone();
                    let st = guarded(move || -> Option<String> {
                        let ast = s3.parse::<candid_parser::IDLProg>().ok()?;
                        let merged = candid_parser::syntax::IDLMergedProg::new(ast);
                        Some(candid_parser::syntax::pretty_print(&merged))
                    });
                    match st {
                        Ok(Some(text2)) => {
                            let t3 = text2.clone();
                            let back = guarded(move || {
                                let ast = t3.parse::<candid_parser::IDLProg>().ok()?;
                                let mut e = TypeEnv::new();
                                let a = candid_parser::check_prog(&mut e, &ast).ok()?;
                                Some(candid::pretty::candid::compile(&e, &a))
                            });
                            if back != Ok(Some(src.clone())) {
                                out.oracle_failure("syntax-tree printer output does not denote the same interface", &format!("{line}\t{}", hexs(&text2)));
                            }
                        }
                        _ => out.oracle_failure("syntax-tree printer fails or panics", &line),
                    }
                }
            }
            "ok".into()
        }
        // the syntax-tree printer on a source with NAMED arguments and results (the type-level printer has none, so
        // `txt.prog` never shows them): print, parse again, same syntax tree
        "txt.astargs" => {
            let src = String::from_utf8(sexp::unhx(args.first()?)?).ok()?;
            let line = args.join("\t");
            let tree = |text: &str| -> Result<String, String> {
                let ast = text.parse::<candid_parser::IDLProg>().map_err(|e| format!("parse: {e}"))?;
                let actor = ast.actor.as_ref().map(|a| a.typ.clone());
                let decs: Vec<candid_parser::syntax::Binding> = candid_parser::IDLProg::typ_decs(ast.decs).collect();
                Ok(format!("{decs:?} {actor:?}"))
            };
            let s1 = src.clone();
            let original = match guarded(move || tree(&s1)) {
                Ok(Ok(t)) => t,
                // the generator writes valid sources: a failure here is the generator's (counted, not compared)
                _ => {
                    out.stat("astargs:source-rejected");
                    return Some("ok".into());
                }
            };
            let s2 = src.clone();
            let printed = guarded(move || -> Option<String> {
                let ast = s2.parse::<candid_parser::IDLProg>().ok()?;
                Some(candid_parser::syntax::pretty_print(&candid_parser::syntax::IDLMergedProg::new(ast)))
            });
            match printed {
                Ok(Some(text)) => {
                    let t2 = text.clone();
                    match guarded(move || tree(&t2)) {
                        Ok(Ok(back)) if back == original => {}
                        Ok(Ok(_)) => out.oracle_failure("syntax-tree printer output parses to a different tree", &format!("{line}\t{}", hexs(&text))),
                        Ok(Err(why)) => out.oracle_failure(
                            &format!("syntax-tree printer output does not parse ({})", &why[..why.len().min(40)]),
                            &format!("{line}\t{}", hexs(&text)),
                        ),
                        Err(_) => out.oracle_failure("parsing syntax-tree printer output panics", &line),
                    }
                    // and it type-checks to the same interface as the source
                    let (a, b2) = (src.clone(), text.clone());
                    let same = guarded(move || {
                        let chk = |t: &str| -> Option<String> {
                            let ast = t.parse::<candid_parser::IDLProg>().ok()?;
                            let mut e = TypeEnv::new();
                            let act = candid_parser::check_prog(&mut e, &ast).ok()?;
                            Some(candid::pretty::candid::compile(&e, &act))
                        };
                        chk(&a) == chk(&b2)
                    });
                    if same != Ok(true) {
                        out.oracle_failure("syntax-tree printer output checks to a different interface", &format!("{line}\t{}", hexs(&text)));
                    }
                }
                _ => out.oracle_failure("syntax-tree printer fails or panics", &line),
            }
            "ok".into()
        }
        _ => return None,
    })
}

/// a name as a quoted Candid text literal, every byte escaped (valid for any name, independent of the printers)
fn quoted(name: &str) -> String {
    let mut o = String::from("\"");
    for b in name.as_bytes() {
        o.push_str(&format!("\\{:02x}", b));
    }
    o.push('"');
    o
}

pub fn hostile_text(ctx: &mut Ctx) -> String {
    let n = ctx.rng.range(0, 6);
    (0..n)
        .map(|_| match ctx.rng.below(16) {
            0 => '\0',
            1 => '"',
            2 => '\\',
            3 => '\'',
            4 => *ctx.rng.pick(&['\n', '\r', '\t', '\x7f', '\x1b', '\x01']),
            5 => *ctx.rng.pick(&['\u{d7ff}', '\u{e000}', '\u{10ffff}', '\u{fffd}', '\u{feff}']),
            6 => *ctx.rng.pick(&['\u{301}', '\u{200d}', '\u{20e3}', '\u{fe0f}', '\u{0903}']), // combining / grapheme extend
            7 => *ctx.rng.pick(&['a', 'f', '0', '9', 'A', 'F', 'u', '{', '}', 'x']),
            8 => char::from_u32(ctx.rng.range(0x80, 0x2ff) as u32).unwrap_or('é'),
            9 => char::from_u32(ctx.rng.range(0x10000, 0x10ffff) as u32).unwrap_or('y'),
            10 => char::from_u32(ctx.rng.range(0x2000, 0x2fff) as u32).unwrap_or('z'),
            _ => (ctx.rng.range(0x20, 0x7e) as u8) as char,
        })
        .collect()
}

fn inject_text(ctx: &mut Ctx, v: &IDLValue) -> IDLValue {
    match v {
        IDLValue::Text(_) => IDLValue::Text(hostile_text(ctx)),
        IDLValue::Opt(x) => IDLValue::Opt(Box::new(inject_text(ctx, x))),
        IDLValue::Vec(xs) => IDLValue::Vec(xs.iter().map(|x| inject_text(ctx, x)).collect()),
        IDLValue::Record(fs) => IDLValue::Record(fs.iter().map(|f| IDLField { id: f.id.clone(), val: inject_text(ctx, &f.val) }).collect()),
        IDLValue::Variant(x) => IDLValue::Variant(VariantValue(Box::new(IDLField { id: x.0.id.clone(), val: inject_text(ctx, &x.0.val) }), x.1)),
        IDLValue::Func(p, _) => IDLValue::Func(*p, hostile_text(ctx)),
        other => other.clone(),
    }
}

/// rename named labels of a type to hostile names (the same renaming must be applied to the value)
fn hostile_labels(ctx: &mut Ctx, t: &Type, names: &mut std::vec::Vec<(u32, Label)>) -> Type {
    use TypeInner::*;
    let relabel = |ctx: &mut Ctx, fs: &[Field], names: &mut std::vec::Vec<(u32, Label)>| -> std::vec::Vec<Field> {
        let mut out: std::vec::Vec<Field> = vec![];
        for f in fs {
            let l = if ctx.rng.chance(1, 2) {
                let n = match ctx.rng.below(4) {
                    0 => (*ctx.rng.pick(&["true", "false", "record", "service", "nat", "null", "opt", "blob", "query", "type"])).to_string(),
                    _ => hostile_text(ctx),
                };
                Label::Named(n)
            } else {
                (*f.id).clone()
            };
            if out.iter().any(|g| g.id.get_id() == l.get_id()) {
                continue;
            }
            names.push((f.id.get_id(), l.clone()));
            out.push(Field { id: l.into(), ty: hostile_labels(ctx, &f.ty, names) });
        }
        out.sort_unstable_by_key(|f| f.id.get_id());
        out
    };
    match t.as_ref() {
        Opt(x) => Opt(hostile_labels(ctx, x, names)).into(),
        Vec(x) => Vec(hostile_labels(ctx, x, names)).into(),
        Record(fs) => Record(relabel(ctx, fs, names)).into(),
        Variant(fs) => Variant(relabel(ctx, fs, names)).into(),
        _ => t.clone(),
    }
}

pub fn run_c11(ctx: &mut Ctx) {
    // 1. texts: every scalar class, both positions (first / later), through the real printer and back
    let n = if ctx.thorough { 400_000 } else { 12_000 };
    for i in 0..n {
        let s = if i < 0x300 {
            // every scalar below U+0300 alone and after an 'a'
            let c = char::from_u32(i as u32).unwrap_or('a');
            if i % 2 == 0 { c.to_string() } else { format!("a{c}") }
        } else {
            hostile_text(ctx)
        };
        let p = format!("{}", IDLValue::Text(s.clone()));
        ctx.emit(&format!("txt.roundtrip\t{}\t{}", hexs(&s), hexs(&p)), true);
        if i % 4 == 0 {
            let pd = format!("{:?}", IDLValue::Text(s.clone()));
            ctx.emit(&format!("txt.roundtrip\t{}\t{}", hexs(&s), hexs(&pd)), true);
        }
    }
    if ctx.thorough {
        for cp in (0..0x110000u32).step_by(1) {
            if let Some(c) = char::from_u32(cp) {
                for s in [c.to_string(), format!("a{c}")] {
                    let p = format!("{}", IDLValue::Text(s.clone()));
                    ctx.emit(&format!("txt.roundtrip\t{}\t{}", hexs(&s), hexs(&p)), true);
                }
            }
        }
        ctx.out.exhaustive.push("every Unicode scalar value, at the first and at a later position of a text".into());
    }
    // 2. raw literal bodies through the sub-lexer: escapes of every kind, malformed ones, unterminated
    let m = if ctx.thorough { 300_000 } else { 10_000 };
    let alphabet: Vec<&str> = vec![
        "\\", "\"", "u", "{", "}", "0", "a", "F", "_", "n", "t", "r", "'", "x", "\\u{", "\\u{0}", "\\u{d800}", "\\u{dfff}", "\\u{10ffff}",
        "\\u{110000}", "\\u{1_0}", "\\u{_1}", "\\u{fffffffff}", "\\0", "\\00", "\\0a", "\\zz", "\\\\", "\\\"", "é", "\n", " ", "\\u{e9}", "\\ff", "\\c3\\a9",
    ];
    for _ in 0..m {
        let k = ctx.rng.range(0, 6);
        let mut body = String::new();
        for _ in 0..k {
            body.push_str(*ctx.rng.pick(&alphabet[..]));
        }
        if ctx.rng.chance(5, 6) {
            body.push('"');
            if ctx.rng.chance(1, 3) {
                body.push_str(" tail");
            }
        }
        ctx.emit(&format!("txt.lex\t{}", hexs(&body)), true);
    }
    // 3. blobs
    let nb = if ctx.thorough { 100_000 } else { 4_000 };
    for i in 0..nb {
        let b: Vec<u8> = if i < 256 {
            vec![i as u8]
        } else {
            let len = ctx.rng.range(0, 8) as usize;
            (0..len)
                .map(|_| match ctx.rng.below(4) {
                    0 => ctx.rng.next() as u8,
                    1 => *ctx.rng.pick(&[0x5cu8, 0x22, 0x27, 0x60, 0x2f, 0x09, 0x0a, 0x0d, 0x00, 0x7f]),
                    _ => ctx.rng.range(0x20, 0x7e) as u8,
                })
                .collect()
        };
        let p = format!("{:?}", IDLValue::Blob(b.clone()));
        ctx.emit(&format!("txt.blobrt\t{}\t{}", sexp::hx(&b), hexs(&p)), true);
    }
    ctx.out.exhaustive.push("every single-byte blob".into());
    // 4. numbers: digit grouping and number tokens
    for k in 0..=40u32 {
        for d in [0i64, 1, -1] {
            let v = num_bigint::BigInt::from(10u8).pow(k) + d;
            ctx.emit(&format!("txt.numrt\t{v}"), true);
            ctx.emit(&format!("txt.numrt\t{}", -v), true);
        }
    }
    let toks = ["0", "00", "1_000", "1__0", "9_", "0x0", "0xff", "0XFF", "0x1_F", "0XaB_cD", "0xffffffffffffffffffffffffffffffffff", "0X0_0", "123456789012345678901234567890"];
    for t in toks {
        ctx.emit(&format!("txt.numtok\t{}", hexs(t)), true);
    }
    for _ in 0..(if ctx.thorough { 20_000 } else { 1_000 }) {
        let hex = ctx.rng.chance(1, 2);
        let len = ctx.rng.range(1, 20);
        let mut t = String::new();
        if hex {
            t.push_str(if ctx.rng.chance(1, 2) { "0x" } else { "0X" });
        }
        for i in 0..len {
            if i > 0 && ctx.rng.chance(1, 5) {
                t.push('_');
            } else if hex {
                t.push(*ctx.rng.pick(&['0', '1', '9', 'a', 'f', 'A', 'F', 'c']));
            } else {
                t.push((b'0' + ctx.rng.below(10) as u8) as char);
            }
        }
        ctx.emit(&format!("txt.numtok\t{}", hexs(&t)), true);
    }
    // 5. record numbering
    for _ in 0..(if ctx.thorough { 20_000 } else { 1_500 }) {
        let k = ctx.rng.range(0, 6);
        let items: Vec<String> = (0..k)
            .map(|_| match ctx.rng.below(6) {
                0 | 1 | 2 => "_".to_string(),
                3 => format!("i{}", ctx.rng.below(6)),
                4 => format!("i{}", ctx.rng.pick(&[4294967295u64, 4294967294, 2147483648])),
                _ => sexp::label(&Label::Named(ctx.rng.pick(&gen::FIELD_NAMES).to_string())),
            })
            .collect();
        ctx.emit(&format!("txt.number\t({})", items.join(" ")), true);
    }
    // 6. whole values: generated types with hostile texts and labels, vectors around the abbreviation threshold
    let nv = if ctx.thorough { 100_000 } else { 4_000 };
    for _ in 0..nv {
        let ndefs = ctx.rng.range(0, 3) as usize;
        let (env, g) = gen::env(&mut ctx.rng, ndefs, 2, true, true);
        let t0 = g.ty(&mut ctx.rng, 3);
        let mut names = vec![];
        let t = if ctx.rng.chance(1, 2) { hostile_labels(ctx, &t0, &mut names) } else { t0.clone() };
        let mut budget = 60;
        let Some(v) = gen::value(&mut ctx.rng, &env, &t, &mut budget) else { continue };
        let mut v = inject_text(ctx, &v);
        // finite floats only
        v = finite(&v);
        if ctx.rng.chance(1, 6) {
            // a vector of 9..12 elements (the printer abbreviates above 10)
            let k = ctx.rng.range(9, 12) as usize;
            let t2: Type = TypeInner::Vec(t.clone()).into();
            let v2 = IDLValue::Vec((0..k).map(|_| v.clone()).collect());
            if !matches!(v, IDLValue::Nat8(_)) {
                ctx.emit(&format!("txt.value\t{}\t{}\t{}", sexp::env(&env), sexp::ty(&t2), sexp::val(&v2, false)), true);
            }
        }
        ctx.emit(&format!("txt.value\t{}\t{}\t{}", sexp::env(&env), sexp::ty(&t), sexp::val(&v, false)), true);
    }
}

fn finite(v: &IDLValue) -> IDLValue {
    match v {
        IDLValue::Float32(f) if !f.is_finite() => IDLValue::Float32(1.5),
        IDLValue::Float64(f) if !f.is_finite() => IDLValue::Float64(-2.25),
        IDLValue::Opt(x) => IDLValue::Opt(Box::new(finite(x))),
        IDLValue::Vec(xs) => IDLValue::Vec(xs.iter().map(finite).collect()),
        IDLValue::Record(fs) => IDLValue::Record(fs.iter().map(|f| IDLField { id: f.id.clone(), val: finite(&f.val) }).collect()),
        IDLValue::Variant(x) => IDLValue::Variant(VariantValue(Box::new(IDLField { id: x.0.id.clone(), val: finite(&x.0.val) }), x.1)),
        other => other.clone(),
    }
}

pub fn hostile_name(ctx: &mut Ctx) -> String {
    match ctx.rng.below(8) {
        0 => (*ctx.rng.pick(&["true", "false", "record", "service", "nat", "null", "opt", "blob", "query", "type", "import", "principal", "oneway", "composite_query", "vec", "variant", "func", "text", "reserved", "empty", "int8", "float64", "bool"])).to_string(),
        1 => format!("{}{}", ctx.rng.pick(&["a", "_", "A", "x1", "9", "", " ", "-"]), ctx.rng.pick(&["", "b", "_", "9", "é", " ", "-", "."])),
        2 => hostile_text(ctx),
        3 => format!("{}", ctx.rng.below(100)),
        _ => (0..ctx.rng.range(1, 6)).map(|_| (b'a' + ctx.rng.below(26) as u8) as char).collect(),
    }
}

pub fn run_c12(ctx: &mut Ctx) {
    // 1. names through the printer's spelling and back through the parser
    let n = if ctx.thorough { 200_000 } else { 6_000 };
    for _ in 0..n {
        let name = hostile_name(ctx);
        let p = candid::pretty::candid::pp_text(&name).pretty(80).to_string();
        ctx.emit(&format!("txt.identrt\t{}\t{}", hexs(&name), hexs(&p)), true);
    }
    // 2. whole interfaces
    let m = if ctx.thorough { 60_000 } else { 2_500 };
    for _ in 0..m {
        let ndefs = ctx.rng.range(0, 5) as usize;
        let (mut env, g) = gen::env(&mut ctx.rng, ndefs, 2, true, true);
        // hostile field and method names
        let keys: Vec<String> = env.0.keys().cloned().collect();
        for k in keys {
            if ctx.rng.chance(1, 2) {
                let mut names = vec![];
                let t = env.0[&k].clone();
                let t2 = hostile_labels(ctx, &t, &mut names);
                env.0.insert(k, t2);
            }
        }
        let mut ms = g.service(&mut ctx.rng, 2);
        if ctx.rng.chance(1, 2) {
            let nm = hostile_name(ctx);
            if !ms.iter().any(|m| m.0 == nm) {
                ms.push((nm, TypeInner::Func(g.func(&mut ctx.rng, 1)).into()));
            }
        }
        // a method given by a name that denotes a function type
        let func_names: Vec<String> = env.0.iter().filter(|(_, t)| matches!(t.as_ref(), TypeInner::Func(_))).map(|(k, _)| k.clone()).collect();
        if !func_names.is_empty() && ctx.rng.chance(1, 2) && !ms.iter().any(|m| m.0 == "viaName") {
            ms.push(("viaName".to_string(), TypeInner::Var(ctx.rng.pick(&func_names).clone()).into()));
        }
        ms.sort_unstable_by(|a, b| a.0.cmp(&b.0));
        let svc: Type = TypeInner::Service(ms).into();
        let actor: Type = if ctx.rng.chance(1, 3) {
            TypeInner::Class(vec![g.ty(&mut ctx.rng, 1)], svc).into()
        } else {
            svc
        };
        ctx.emit(&format!("txt.prog\t{}\t{}", sexp::env(&env), sexp::ty(&actor)), true);
    }
    // 3. named arguments and results (function types, methods, service constructors) through the syntax-tree printer
    let k = if ctx.thorough { 30_000 } else { 1_500 };
    for _ in 0..k {
        let mut nm = |ctx: &mut Ctx| -> String {
            let n = hostile_name(ctx);
            // bare when it is plainly an identifier and the generator feels like it; quoted otherwise (always valid)
            let plain = !n.is_empty()
                && n.chars().all(|c| c.is_ascii_alphanumeric() || c == '_')
                && !n.chars().next().unwrap().is_ascii_digit()
                && !["true", "false", "record", "service", "nat", "null", "opt", "blob", "query", "type", "import", "principal", "oneway", "composite_query", "vec", "variant", "func", "text", "reserved", "empty", "int", "bool", "nat8", "nat16", "nat32", "nat64", "int8", "int16", "int32", "int64", "float32", "float64"].contains(&n.as_str());
            if plain && ctx.rng.chance(1, 2) { n } else { quoted(&n) }
        };
        let n: Vec<String> = (0..8).map(|_| nm(ctx)).collect();
        let src = match ctx.rng.below(3) {
            0 => format!(
                "type F = func ({} : nat, {} : text) -> ({} : bool) query;\nservice : {{ get : ({} : nat) -> ({} : opt text) query; put : F; }}",
                n[0], n[1], n[2], n[3], n[4]
            ),
            1 => format!(
                "type F = func ({} : nat) -> ();\nservice : ({} : principal, {} : nat) -> {{ get : ({} : F) -> ({} : record {{ nat; nat }}); }}",
                n[0], n[1], n[2], n[3], n[4]
            ),
            _ => format!(
                "type R = record {{ cb : func ({} : text, {} : R) -> ({} : null) }};\nservice : {{ m : ({} : R, nat, {} : vec R) -> (R, {} : nat) composite_query; }}",
                n[0], n[1], n[2], n[3], n[4], n[5]
            ),
        };
        ctx.emit(&format!("txt.astargs\t{}", hexs(&src)), true);
    }
}

pub fn run_c13(ctx: &mut Ctx) {
    let soup: Vec<&str> = vec![
        "(", ")", "{", "}", ";", ",", ".", ":", "=", "->", "==", "!=", "!:", "record", "variant", "vec", "opt", "func", "service", "type", "import",
        "principal", "blob", "null", "true", "false", "query", "oneway", "composite_query", "nat", "int", "text", "nat8", "reserved", "empty", "a", "B_1",
        "0", "1", "42", "4294967295", "4294967296", "0x1F", "0X1F", "0x_1", "0x_", "0X__", "0x", "_", "1_", "1_000", "1.5", ".5", "1e10", "1e", "+", "-", "\"a\"", "\"\\u{41}\"", "\"\\u{dfff}\"",
        "\"\\zz\"", "\"", "/*", "*/", "//x\n", " ", "\n", "é", "\\", "`", "#", "assert", "encode", "4294967295 = 1", "4294967295 : nat", "18446744073709551616",
        "record { 4294967295 = 1; 2 }", "(vec {1 : nat8; 2} : text)", "principal \"aaaaa-aa\"", "principal \"zz\"", "service \"aaaaa-aa\"", "func \"aaaaa-aa\".f",
        // string escapes whose number does not fit 21 / 32 / 64 bits, and leading zeros (the lexer parses the hex digits itself)
        "\"\\u{10ffff}\"", "\"\\u{110000}\"", "\"\\u{ffffffff}\"", "\"\\u{100000000}\"", "\"\\u{100000041}\"", "\"\\u{fffffffff}\"",
        "\"\\u{0000000041}\"", "\"\\u{10000000000000041}\"", "\"\\u{ffffffffffffffffffff}\"", "record { \"\\u{100000041}\" : nat }", "variant { \"\\u{fffffffff}\" }",
    ];
    let n = if ctx.thorough { 600_000 } else { 12_000 };
    for i in 0..n {
        let k = ctx.rng.range(0, 8);
        let mut s = String::new();
        for _ in 0..k {
            s.push_str(*ctx.rng.pick(&soup[..]));
            if ctx.rng.chance(2, 3) {
                s.push(' ');
            }
        }
        let entry = ENTRIES[i % ENTRIES.len()];
        ctx.emit(&format!("txt.total\t{entry}\t{}", hexs(&s)), true);
    }
    // grammar-directed sentences with one token deleted / duplicated / replaced
    let seeds = [
        "type A = record { a : nat; b : opt A }; service : { f : (A) -> (vec A) query; g : () -> () oneway }",
        "import \"x.did\"; type T = variant { a; b : text }; service : (nat) -> { m : (T) -> (T) }",
        "(record { a = 1; 2; \"x\" = opt vec { 1; 2 } }, variant { a = 3 : nat8 }, principal \"aaaaa-aa\", blob \"\\00ab\")",
        "(func \"aaaaa-aa\".\"m\", service \"aaaaa-aa\", 1.5e3, -7, 0x_a)",
        "type F = func (nat, text) -> (opt F) composite_query; type S = service { m : F };",
        "assert blob \"DIDL\\00\\00\" == \"()\" : ();",
        "(nat, record { nat; 2 : text }) ",
    ];
    let m = if ctx.thorough { 200_000 } else { 6_000 };
    for i in 0..m {
        let seed = *ctx.rng.pick(&seeds);
        let toks: Vec<&str> = seed.split(' ').collect();
        let mut t: Vec<String> = toks.iter().map(|x| x.to_string()).collect();
        if !t.is_empty() {
            let j = ctx.rng.below(t.len() as u64) as usize;
            match ctx.rng.below(3) {
                0 => {
                    t.remove(j);
                }
                1 => {
                    let x = t[j].clone();
                    t.insert(j, x);
                }
                _ => t[j] = ctx.rng.pick(&soup[..]).to_string(),
            }
        }
        let s = t.join(" ");
        let entry = ENTRIES[i % ENTRIES.len()];
        ctx.emit(&format!("txt.total\t{entry}\t{}", hexs(&s)), true);
    }
    // number-like lexemes letter by letter (digits, hex digits, the radix prefix, underscores, exponent and sign
    // characters) in every position where the grammar takes a number
    let alphabet: Vec<char> = "0123456789abcdefABCDEFxX__..eE+-".chars().collect();
    let frames = ["({})", "({} : nat)", "(vec {{ {}; 1 }})", "(record {{ {} = 1 }})", "(variant {{ {} }})", "type T = record {{ {} : nat }};",
        "(record {{ a = {} }})", "({} : float64)", "(-{})", "({}, {})"];
    let k = if ctx.thorough { 300_000 } else { 8_000 };
    for i in 0..k {
        let len = ctx.rng.range(1, 6) as usize;
        let mut lex = String::new();
        if ctx.rng.chance(1, 2) {
            lex.push_str(*ctx.rng.pick(&["0x", "0X", "0", "1", "0x_", ".", "1e", "1.", "0x1"]));
        }
        for _ in 0..len {
            lex.push(*ctx.rng.pick(&alphabet[..]));
        }
        let frame = *ctx.rng.pick(&frames);
        let s = frame.replace("{}", &lex);
        let entry = ENTRIES[i % ENTRIES.len()];
        ctx.emit(&format!("txt.total\t{entry}\t{}", hexs(&s)), true);
    }
    // nesting up to 128, long numerals
    for depth in [1usize, 64, 127, 128] {
        let s = format!("{}1{}", "(opt ".repeat(depth), ")".repeat(depth));
        ctx.emit(&format!("txt.total\targs\t{}", hexs(&format!("({s})"))), true);
        let t = format!("{}nat", "opt ".repeat(depth));
        ctx.emit(&format!("txt.total\ttype\t{}", hexs(&t)), true);
        let r = format!("{}nat{}", "record { a : ".repeat(depth), " }".repeat(depth));
        ctx.emit(&format!("txt.total\ttype\t{}", hexs(&r)), true);
    }
    let long = "9".repeat(400);
    for s in [format!("({long})"), format!("(0x{})", "f".repeat(300)), format!("record {{ {long} = 1 }}"), format!("({long}.{long}e{long})")] {
        for e in ["args", "value", "type"] {
            ctx.emit(&format!("txt.total\t{e}\t{}", hexs(&s)), true);
        }
    }
}
