//! C09 — (S)LEB128 codecs.  Ops (model side: lean/CandidModel/Driver/Leb.lean):
//!   leb.natDecode / leb.intDecode   Nat::decode / Int::decode on a cursor
//!   leb.dec128u / leb.dec128i       candid::types::leb128::decode_nat / decode_int
//!   leb.msg*                        Decode! / IDLArgs::from_bytes of a message whose body is the string
//!   leb.natEncode / intEncode / enc128u / enc128i   encoders (+ round trip on the implementation)
use crate::{guarded, hex_or_dash, Ctx, Out};
use candid::types::leb128;
use candid::{Decode, Encode, Int, Nat};
use num_bigint::{BigInt, BigUint};
use std::io::Cursor;

fn show<T: std::fmt::Display>(r: Result<candid::Result<(T, Vec<u8>)>, String>) -> String {
    match r {
        Ok(Ok((v, rest))) => format!("ok {} {}", v, hex_or_dash(&rest)),
        Ok(Err(_)) => "err".to_string(),
        Err(_) => "panic".to_string(),
    }
}

fn with_cursor<T>(bs: &[u8], f: impl FnOnce(&mut Cursor<&[u8]>) -> candid::Result<T>) -> candid::Result<(T, Vec<u8>)> {
    let mut c = Cursor::new(bs);
    let v = f(&mut c)?;
    let pos = c.position() as usize;
    Ok((v, bs[pos..].to_vec()))
}

fn msg(ty: u8, body: &[u8]) -> Vec<u8> {
    let mut m = b"DIDL\x00\x01".to_vec();
    m.push(ty);
    m.extend_from_slice(body);
    m
}
fn msg_vec(ty: u8, body: &[u8]) -> Vec<u8> {
    let mut m = b"DIDL\x01\x6d".to_vec();
    m.push(ty);
    m.extend_from_slice(b"\x01\x00");
    m.extend_from_slice(body);
    m
}

fn showm<T: std::fmt::Display>(r: Result<candid::Result<T>, String>) -> String {
    match r {
        Ok(Ok(v)) => format!("ok {} -", v),
        Ok(Err(_)) => "err".to_string(),
        Err(_) => "panic".to_string(),
    }
}
fn showv<T: std::fmt::Display>(r: Result<candid::Result<Vec<T>>, String>) -> String {
    match r {
        Ok(Ok(v)) => format!("ok [{}]", v.iter().map(|x| x.to_string()).collect::<Vec<_>>().join(",")),
        Ok(Err(_)) => "err".to_string(),
        Err(_) => "panic".to_string(),
    }
}
fn showe(r: &Result<candid::Result<Vec<u8>>, String>) -> String {
    match r {
        Ok(Ok(w)) => hex::encode(w),
        Ok(Err(_)) => "err".into(),
        Err(_) => "panic".into(),
    }
}

fn unhex(h: &str) -> Option<Vec<u8>> {
    if h == "-" {
        Some(vec![])
    } else {
        hex::decode(h).ok()
    }
}

pub fn eval(out: &mut Out, op: &str, args: &[&str]) -> Option<String> {
    use num_traits::ToPrimitive;
    let a0 = *args.first()?;
    if op.ends_with("Encode") || op.starts_with("leb.enc128") {
        let v: BigInt = a0.parse().ok()?;
        let s = a0;
        return Some(match op {
            "leb.intEncode" => {
                let i = Int(v.clone());
                let r = guarded(|| {
                    let mut w = vec![];
                    i.encode(&mut w).map(|_| w)
                });
                if let Ok(Ok(w)) = &r {
                    let w = w.clone();
                    match guarded(|| with_cursor(&w, |c| Int::decode(c))) {
                        Ok(Ok((j, rest))) if j.0 == v && rest.is_empty() => {}
                        _ => out.oracle_failure("Int::decode(Int::encode(x)) != x", s),
                    }
                    match guarded(|| Encode!(&Int(v.clone())).and_then(|m| Decode!(&m, Int))) {
                        Ok(Ok(j)) if j.0 == v => {}
                        _ => out.oracle_failure("Decode!(Encode!(Int x)) != x", s),
                    }
                }
                showe(&r)
            }
            "leb.natEncode" => {
                let u = v.to_biguint()?;
                let n = Nat(u.clone());
                let r = guarded(|| {
                    let mut w = vec![];
                    n.encode(&mut w).map(|_| w)
                });
                if let Ok(Ok(w)) = &r {
                    let w = w.clone();
                    match guarded(|| with_cursor(&w, |c| Nat::decode(c))) {
                        Ok(Ok((j, rest))) if j.0 == u && rest.is_empty() => {}
                        _ => out.oracle_failure("Nat::decode(Nat::encode(x)) != x", s),
                    }
                    match guarded(|| Encode!(&Nat(u.clone())).and_then(|m| Decode!(&m, Nat))) {
                        Ok(Ok(j)) if j.0 == u => {}
                        _ => out.oracle_failure("Decode!(Encode!(Nat x)) != x", s),
                    }
                }
                showe(&r)
            }
            "leb.enc128u" => {
                let x = v.to_u128()?;
                let r = guarded(|| {
                    let mut w = vec![];
                    leb128::encode_nat(&mut w, x).map(|_| w)
                });
                match guarded(|| Encode!(&x).and_then(|m| Decode!(&m, u128))) {
                    Ok(Ok(j)) if j == x => {}
                    _ => out.oracle_failure("Decode!(Encode!(u128 x)) != x", s),
                }
                showe(&r)
            }
            "leb.enc128i" => {
                let x = v.to_i128()?;
                let r = guarded(|| {
                    let mut w = vec![];
                    leb128::encode_int(&mut w, x).map(|_| w)
                });
                match guarded(|| Encode!(&x).and_then(|m| Decode!(&m, i128))) {
                    Ok(Ok(j)) if j == x => {}
                    _ => out.oracle_failure("Decode!(Encode!(i128 x)) != x", s),
                }
                showe(&r)
            }
            _ => return None,
        });
    }
    let b = unhex(a0)?;
    Some(match op {
        "leb.natDecode" => show(guarded(|| with_cursor(&b, |c| Nat::decode(c).map(|n| n.0)))),
        "leb.intDecode" => show(guarded(|| with_cursor(&b, |c| Int::decode(c).map(|n| n.0)))),
        "leb.dec128u" => show(guarded(|| with_cursor(&b, |c| leb128::decode_nat(c)))),
        "leb.dec128i" => show(guarded(|| with_cursor(&b, |c| leb128::decode_int(c)))),
        "leb.msgNat" => {
            let m = msg(0x7d, &b);
            showm(guarded(|| Decode!(&m, Nat).map(|n| n.0)))
        }
        "leb.msgInt" => {
            let m = msg(0x7c, &b);
            showm(guarded(|| Decode!(&m, Int).map(|n| n.0)))
        }
        "leb.msgNatAsInt" => {
            let m = msg(0x7d, &b);
            showm(guarded(|| Decode!(&m, Int).map(|n| n.0)))
        }
        "leb.msgU128" => {
            let m = msg(0x7d, &b);
            showm(guarded(|| Decode!(&m, u128)))
        }
        "leb.msgI128" => {
            let m = msg(0x7c, &b);
            showm(guarded(|| Decode!(&m, i128)))
        }
        "leb.msgNatAsI128" => {
            let m = msg(0x7d, &b);
            showm(guarded(|| Decode!(&m, i128)))
        }
        "leb.msgVecNatAsI128" => {
            let m = msg_vec(0x7d, &b);
            showv(guarded(|| Decode!(&m, Vec<i128>)))
        }
        "leb.msgNatU" => {
            let m = msg(0x7d, &b);
            showm(guarded(|| {
                candid::IDLArgs::from_bytes(&m).and_then(|a| match &a.args[..] {
                    [candid::IDLValue::Nat(n)] => Ok(n.0.clone()),
                    _ => Err(candid::Error::msg("shape")),
                })
            }))
        }
        "leb.msgIntU" => {
            let m = msg(0x7c, &b);
            showm(guarded(|| {
                candid::IDLArgs::from_bytes(&m).and_then(|a| match &a.args[..] {
                    [candid::IDLValue::Int(n)] => Ok(n.0.clone()),
                    _ => Err(candid::Error::msg("shape")),
                })
            }))
        }
        "leb.msgVecNat" => {
            let m = msg_vec(0x7d, &b);
            showv(guarded(|| Decode!(&m, Vec<Nat>).map(|v| v.into_iter().map(|n| n.0).collect())))
        }
        "leb.msgVecInt" => {
            let m = msg_vec(0x7c, &b);
            showv(guarded(|| Decode!(&m, Vec<Int>).map(|v| v.into_iter().map(|n| n.0).collect())))
        }
        "leb.msgVecU128" => {
            let m = msg_vec(0x7d, &b);
            showv(guarded(|| Decode!(&m, Vec<u128>)))
        }
        "leb.msgVecI128" => {
            let m = msg_vec(0x7c, &b);
            showv(guarded(|| Decode!(&m, Vec<i128>)))
        }
        _ => return None,
    })
}

const STANDALONE: [&str; 4] = ["leb.natDecode", "leb.intDecode", "leb.dec128u", "leb.dec128i"];
const INMSG: [&str; 8] =
    ["leb.msgNat", "leb.msgInt", "leb.msgNatAsInt", "leb.msgU128", "leb.msgI128", "leb.msgNatU", "leb.msgIntU", "leb.msgNatAsI128"];
const VECS: [&str; 5] = ["leb.msgVecNat", "leb.msgVecInt", "leb.msgVecU128", "leb.msgVecI128", "leb.msgVecNatAsI128"];

fn decode_ops(ctx: &mut Ctx, bs: &[u8], all: bool) {
    let h = hex_or_dash(bs);
    // non-trivial: the string has a terminated prefix (an unterminated string only exercises EOF)
    let nt = bs.iter().any(|b| b & 0x80 == 0);
    for op in STANDALONE {
        ctx.emit(&format!("{op}\t{h}"), nt);
    }
    if all {
        for op in INMSG {
            ctx.emit(&format!("{op}\t{h}"), nt);
        }
    }
}

fn uleb(mut n: BigUint) -> Vec<u8> {
    use num_traits::{ToPrimitive, Zero};
    let mut out = vec![];
    loop {
        let d = (&n % 128u32).to_u8().unwrap();
        n >>= 7;
        if n.is_zero() {
            out.push(d);
            return out;
        }
        out.push(d | 0x80);
    }
}

pub fn run(ctx: &mut Ctx) {
    // 1. exhaustive: every byte string of length ≤ 2 (thorough: ≤ 3) through the four standalone decoders
    decode_ops(ctx, &[], true);
    for a in 0..=255u8 {
        decode_ops(ctx, &[a], true);
    }
    for a in 0..=255u8 {
        for b in 0..=255u8 {
            decode_ops(ctx, &[a, b], false);
        }
    }
    ctx.out.exhaustive.push("all byte strings of length <= 2 at natDecode,intDecode,dec128u,dec128i".into());
    if ctx.thorough {
        for a in 0..=255u8 {
            for b in 0..=255u8 {
                for c in 0..=255u8 {
                    decode_ops(ctx, &[a, b, c], false);
                }
            }
        }
        ctx.out.exhaustive.push("all byte strings of length 3 at natDecode,intDecode,dec128u,dec128i".into());
    }
    // 2. boundary families around the 64-bit and 128-bit limits, all sign/padding patterns
    let fills: [u8; 4] = [0x80, 0xff, 0xaa, 0x00];
    let pens: [u8; 7] = [0x80, 0x81, 0x83, 0xbf, 0xc0, 0xfe, 0xff];
    let lasts: [u8; 14] = [0x00, 0x01, 0x02, 0x03, 0x04, 0x07, 0x3f, 0x40, 0x41, 0x78, 0x7c, 0x7d, 0x7e, 0x7f];
    for len in [7usize, 8, 9, 10, 11, 12, 17, 18, 19, 20, 21, 22, 25, 37, 40] {
        for &f in &fills {
            for &p in &pens {
                for &l in &lasts {
                    let mut bs: Vec<u8> = (0..len)
                        .map(|_| if f == 0 { (ctx.rng.next() as u8) | 0x80 } else { f | 0x80 })
                        .collect();
                    bs[len - 2] = p;
                    bs[len - 1] = l;
                    decode_ops(ctx, &bs, true);
                }
            }
        }
    }
    // 3. random strings up to 40 bytes, biased to long continuation runs; some unterminated; some with a tail
    let n_rand = if ctx.thorough { 400_000 } else { 4_000 };
    for _ in 0..n_rand {
        let len = ctx.rng.range(1, 40) as usize;
        let mut bs: Vec<u8> = (0..len)
            .map(|_| {
                let b = ctx.rng.next() as u8;
                match ctx.rng.below(10) {
                    0 => b & 0x7f,
                    1 => 0x80,
                    2 => 0xff,
                    _ => b | 0x80,
                }
            })
            .collect();
        if ctx.rng.chance(4, 5) {
            let l = bs.len();
            bs[l - 1] &= 0x7f;
        }
        if ctx.rng.chance(1, 5) {
            let extra = ctx.rng.range(0, 3) as usize;
            bs.extend(ctx.rng.bytes(extra));
        }
        decode_ops(ctx, &bs, true);
    }
    // 4. vectors of numbers inside a message (big-number vector fast path)
    let n_vec = if ctx.thorough { 50_000 } else { 1_500 };
    for _ in 0..n_vec {
        let cnt = ctx.rng.range(0, 4) as usize;
        let mut body = vec![cnt as u8];
        for _ in 0..cnt {
            let bits = *ctx.rng.pick(&[3u64, 7, 14, 56, 62, 63, 64, 65, 70, 126, 127, 128, 129, 140]);
            let mut v = BigUint::from(1u8) << (bits as usize);
            v -= 1u8;
            let r = BigUint::from_bytes_le(&ctx.rng.bytes(20));
            let v = v & r;
            let mut e = uleb(v);
            if ctx.rng.chance(1, 4) {
                let l = e.len();
                e[l - 1] |= 0x80;
                let pad = ctx.rng.range(0, 3);
                let fill = if ctx.rng.chance(1, 2) { 0x80 } else { 0xff };
                for _ in 0..pad {
                    e.push(fill);
                }
                e.push(if fill == 0xff { 0x7f } else { 0x00 });
            }
            body.extend(e);
        }
        if ctx.rng.chance(1, 10) && body.len() > 1 {
            body.pop();
        }
        let h = hex_or_dash(&body);
        for op in VECS {
            ctx.emit(&format!("{op}\t{h}"), true);
        }
    }
    // 5. encoders: ±2^k + {-2..2} for k ≤ 200, and random magnitudes
    let mut vals: Vec<BigInt> = vec![];
    for k in 0..=200usize {
        for d in -2i32..=2 {
            let p = BigInt::from(1u8) << k;
            vals.push(&p + d);
            vals.push(-&p + d);
        }
    }
    let n_enc = if ctx.thorough { 100_000 } else { 2_000 };
    for _ in 0..n_enc {
        let nbytes = ctx.rng.range(1, 26) as usize;
        let m = BigInt::from_signed_bytes_le(&ctx.rng.bytes(nbytes));
        vals.push(m);
    }
    let lo128: BigInt = -(BigInt::from(1u8) << 127usize);
    let hi128: BigInt = BigInt::from(1u8) << 127usize;
    let hiu128: BigInt = BigInt::from(1u8) << 128usize;
    let zero = BigInt::from(0u8);
    for v in vals {
        ctx.emit(&format!("leb.intEncode\t{v}"), true);
        if v >= zero {
            ctx.emit(&format!("leb.natEncode\t{v}"), true);
            if v < hiu128 {
                ctx.emit(&format!("leb.enc128u\t{v}"), true);
            }
        }
        if v >= lo128 && v < hi128 {
            ctx.emit(&format!("leb.enc128i\t{v}"), true);
        }
    }
}
