//! Correspondence harness: drives the real crates in /repo on generated inputs and writes, per case,
//! one request line for the Lean model driver (`req.txt`) and the implementation's canonical answer
//! (`impl.txt`, line-aligned).  Implementation-vs-oracle failures that need no model (round-trips on
//! the implementation itself) go to `meta.json` under `oracle_failures`.
//!
//! usage: harness <property> <outdir> <seed> <tier: quick|thorough>
#![allow(clippy::all)]
#![recursion_limit = "1024"]
use std::collections::{BTreeMap, HashSet};
use std::fs::File;
use std::io::{BufWriter, Write};

mod c01;
mod c02;
mod bomb;
mod corpus;
mod c03;
mod c04;
mod c05;
mod c06;
mod c07;
mod c09;
mod c11;
mod c14;
mod c17;
mod c18;
mod c19;
mod c20;
mod jsmini;
mod c15;
mod gen;
mod sexp;
mod c16;

/// SplitMix64: every random choice of a run derives from one state seeded by VERIF_SEED.
pub struct Rng(pub u64);
impl Rng {
    pub fn next(&mut self) -> u64 {
        self.0 = self.0.wrapping_add(0x9E3779B97F4A7C15);
        let mut z = self.0;
        z = (z ^ (z >> 30)).wrapping_mul(0xBF58476D1CE4E5B9);
        z = (z ^ (z >> 27)).wrapping_mul(0x94D049BB133111EB);
        z ^ (z >> 31)
    }
    pub fn below(&mut self, n: u64) -> u64 {
        if n == 0 {
            0
        } else {
            self.next() % n
        }
    }
    pub fn range(&mut self, lo: u64, hi: u64) -> u64 {
        lo + self.below(hi - lo + 1)
    }
    pub fn chance(&mut self, num: u64, den: u64) -> bool {
        self.below(den) < num
    }
    pub fn pick<'a, T>(&mut self, xs: &'a [T]) -> &'a T {
        &xs[self.below(xs.len() as u64) as usize]
    }
    pub fn bytes(&mut self, n: usize) -> Vec<u8> {
        (0..n).map(|_| self.next() as u8).collect()
    }
}

pub struct Out {
    req: BufWriter<File>,
    imp: BufWriter<File>,
    pub n: u64,
    pub stats: BTreeMap<String, u64>,
    distinct: HashSet<u64>,
    pub samples: Vec<String>,
    pub oracle_failures: Vec<(String, String, String)>,
    /// the request being evaluated (empty outside an evaluation): an oracle failure raised meanwhile is replayed by it
    pub current: String,
    pub exhaustive: Vec<String>,
}

fn fnv(s: &str) -> u64 {
    let mut h: u64 = 0xcbf29ce484222325;
    for b in s.bytes() {
        h ^= b as u64;
        h = h.wrapping_mul(0x100000001b3);
    }
    h
}

impl Out {
    fn new(dir: &str) -> Out {
        std::fs::create_dir_all(dir).unwrap();
        Out {
            req: BufWriter::new(File::create(format!("{dir}/req.txt")).unwrap()),
            imp: BufWriter::new(File::create(format!("{dir}/impl.txt")).unwrap()),
            n: 0,
            stats: BTreeMap::new(),
            distinct: HashSet::new(),
            samples: vec![],
            oracle_failures: vec![],
            current: String::new(),
            exhaustive: vec![],
        }
    }
    /// One correspondence case. `nontrivial` follows the per-property rule printed in the evidence.
    /// The request is on disk before the implementation runs: if the process dies (abort, stack overflow,
    /// allocation failure), req.txt has one line more than impl.txt and that line is the input.
    pub fn begin(&mut self, req: &str) {
        debug_assert!(!req.contains('\n'));
        writeln!(self.req, "{req}").unwrap();
        self.req.flush().unwrap();
        self.current = req.to_string();
    }
    pub fn case(&mut self, req: &str, imp: &str, nontrivial: bool) {
        debug_assert!(!imp.contains('\n'));
        writeln!(self.imp, "{imp}").unwrap();
        self.current.clear();
        self.n += 1;
        if nontrivial {
            self.distinct.insert(fnv(req));
        }
        let op = req.split('\t').next().unwrap_or("");
        *self.stats.entry(format!("op:{op}")).or_insert(0) += 1;
        let cls = imp.split(|c| c == ' ' || c == '\t').next().unwrap_or("");
        let cls = if matches!(cls, "ok" | "err" | "panic" | "true" | "false") { cls } else { "val" };
        *self.stats.entry(format!("impl:{op}:{cls}")).or_insert(0) += 1;
        if self.samples.len() < 12 && (self.n % 997 == 1 || self.samples.len() < 3) {
            self.samples.push(format!("{req} => {imp}"));
        }
    }
    pub fn stat(&mut self, key: &str) {
        *self.stats.entry(key.to_string()).or_insert(0) += 1;
    }
    /// The implementation disagrees with an oracle that needs no model (e.g. a round trip).
    pub fn oracle_failure(&mut self, what: &str, input: &str) {
        if self.oracle_failures.len() < 200 {
            self.oracle_failures.push((what.to_string(), input.to_string(), self.current.clone()));
        }
        self.stat(&format!("oracle_failure:{what}"));
    }
    fn finish(mut self, dir: &str) {
        self.req.flush().unwrap();
        self.imp.flush().unwrap();
        let mut s = String::new();
        s.push_str("{\n");
        s.push_str(&format!("  \"evaluations\": {},\n", self.n));
        s.push_str(&format!("  \"distinct_nontrivial\": {},\n", self.distinct.len()));
        s.push_str("  \"exhaustive_families\": [");
        s.push_str(&self.exhaustive.iter().map(|x| js(x)).collect::<Vec<_>>().join(", "));
        s.push_str("],\n  \"stats\": {");
        s.push_str(
            &self.stats.iter().map(|(k, v)| format!("{}: {}", js(k), v)).collect::<Vec<_>>().join(", "),
        );
        s.push_str("},\n  \"samples\": [");
        s.push_str(&self.samples.iter().map(|x| js(x)).collect::<Vec<_>>().join(", "));
        s.push_str("],\n  \"oracle_failures\": [");
        s.push_str(
            &self
                .oracle_failures
                .iter()
                .map(|(w, i, r)| format!("{{\"what\": {}, \"input\": {}, \"request\": {}}}", js(w), js(i), js(r)))
                .collect::<Vec<_>>()
                .join(", "),
        );
        s.push_str("]\n}\n");
        std::fs::write(format!("{dir}/meta.json"), s).unwrap();
    }
}

pub fn js(s: &str) -> String {
    let mut o = String::from("\"");
    for c in s.chars() {
        match c {
            '"' => o.push_str("\\\""),
            '\\' => o.push_str("\\\\"),
            '\n' => o.push_str("\\n"),
            '\t' => o.push_str("\\t"),
            '\r' => o.push_str("\\r"),
            c if (c as u32) < 0x20 => o.push_str(&format!("\\u{:04x}", c as u32)),
            c => o.push(c),
        }
    }
    o.push('"');
    o
}

pub fn hex_or_dash(b: &[u8]) -> String {
    if b.is_empty() {
        "-".to_string()
    } else {
        hex::encode(b)
    }
}

/// Run `f` under catch_unwind; a panic becomes `Err(message)`.
pub fn guarded<T>(f: impl FnOnce() -> T + std::panic::UnwindSafe) -> Result<T, String> {
    match std::panic::catch_unwind(f) {
        Ok(v) => Ok(v),
        Err(e) => {
            let msg = if let Some(s) = e.downcast_ref::<&str>() {
                s.to_string()
            } else if let Some(s) = e.downcast_ref::<String>() {
                s.clone()
            } else {
                "?".to_string()
            };
            Err(msg)
        }
    }
}

thread_local! {
    pub static LAST_REQ: std::cell::RefCell<String> = std::cell::RefCell::new(String::new());
    pub static LAST_PANIC: std::cell::RefCell<String> = std::cell::RefCell::new(String::new());
}

pub struct Ctx {
    pub rng: Rng,
    pub out: Out,
    pub thorough: bool,
    pub args: Vec<String>,
}

/// Evaluate one request line on the real implementation. Every op of every property goes through
/// here, so a replay file or a corpus entry is just a list of request lines.
pub fn eval(out: &mut Out, req: &str) -> String {
    let mut it = req.split('\t');
    let op = it.next().unwrap_or("");
    let args: Vec<&str> = it.collect();
    let r = if op.starts_with("leb.") {
        c09::eval(out, op, &args)
    } else if op.starts_with("nat.") {
        c01::eval(out, op, &args)
    } else if op.starts_with("de.") {
        c07::eval(out, op, &args)
    } else if op.starts_with("sound.") {
        c04::eval(out, op, &args)
    } else if op == "wire.roundtrip" || op == "wire.annotate" {
        c03::eval(out, op, &args)
    } else if op.starts_with("wire.") {
        c02::eval(out, op, &args)
    } else if op.starts_with("sub.") {
        c05::eval(out, op, &args)
    } else if op.starts_with("hash.") || op.starts_with("lbl.") {
        c15::eval(out, op, &args)
    } else if op.starts_with("bind.") || op.starts_with("mo.") || op.starts_with("ts.") {
        c19::eval(out, op, &args)
    } else if op.starts_with("rs.") {
        c18::eval(out, op, &args)
    } else if op.starts_with("rnd.") {
        c20::eval(out, op, &args)
    } else if op.starts_with("js.") {
        c17::eval(out, op, &args)
    } else if op.starts_with("chk.") {
        c14::eval(out, op, &args)
    } else if op.starts_with("txt.") {
        c11::eval(out, op, &args)
    } else if op.starts_with("pr.") {
        c16::eval(out, op, &args)
    } else {
        None
    };
    r.unwrap_or_else(|| "bad-op".to_string())
}

/// Is this a message whose values announce millions of zero-sized vector elements?  (A few bytes can announce a
/// vector of 2^40 `null`s; without a decoding quota the decoder — and the specification's reader, which reads every
/// wire value in full — then iterate that many times.  The properties bound the work only under a quota, so such a
/// message is not sent to those entry points: it would only stall the run.)  The test is made by an independent
/// walker (`bomb.rs`), not by the decoder under test.
fn costs_too_much(bytes: &[u8]) -> bool {
    bomb::announces_zero_sized_flood(bytes)
}

fn unmetered_message(req: &str) -> Option<Vec<u8>> {
    let mut it = req.split('\t');
    let op = it.next()?;
    let args: Vec<&str> = it.collect();
    // the argument that holds the message, for the ops that decode one without a decoding quota (the implementation,
    // or the specification's reader, which reads the whole wire value before it coerces)
    let at = match op {
        "wire.decode" | "wire.decodeSelf" => Some(0),
        "de.decode" => Some(0), // also under quotas: the specification's answer is computed without them
        "nat.decode" | "nat.decodeU" | "nat.bounded" => Some(1),
        "nat.check" | "nat.checkU" => Some(2),
        "nat.mirror" | "nat.mirrorU" | "nat.mirrorQ" => Some(2),
        _ => None,
    };
    sexp::unhx(args.get(at?)?)
}

impl Ctx {
    pub fn emit(&mut self, req: &str, nontrivial: bool) -> String {
        if std::env::var_os("VERIF_PANIC_TRACE").is_some() {
            LAST_REQ.with(|p| *p.borrow_mut() = req.to_string());
        }
        if let Some(bytes) = unmetered_message(req) {
            if costs_too_much(&bytes) {
                self.out.stat("skipped:message-announces-zero-sized-flood");
                return "skip".to_string();
            }
        }
        self.out.begin(req);
        let ans = eval(&mut self.out, req);
        if ans.starts_with("panic") {
            let loc = LAST_PANIC.with(|p| p.borrow().clone());
            self.out.stat(&format!("panic-at:{loc}"));
        }
        self.out.case(req, &ans, nontrivial);
        ans
    }
}

fn main() {
    let args: Vec<String> = std::env::args().collect();
    if args.len() < 5 {
        eprintln!("usage: harness <property> <outdir> <seed> <quick|thorough> [extra…]");
        std::process::exit(2);
    }
    std::panic::set_hook(Box::new(|info| {
        let loc = info.location().map(|l| format!("{}:{}", l.file(), l.line())).unwrap_or_default();
        if std::env::var_os("VERIF_PANIC_TRACE").is_some() {
            eprintln!("{info}\n{}\nrequest: {}", std::backtrace::Backtrace::force_capture(), LAST_REQ.with(|p| p.borrow().clone()));
        }
        LAST_PANIC.with(|p| *p.borrow_mut() = loc);
    }));
    let prop = args[1].as_str();
    let dir = args[2].clone();
    let seed: u64 = args[3].parse().unwrap_or(0);
    let thorough = args[4] == "thorough";
    let mut ctx = Ctx {
        rng: Rng(seed ^ fnv(prop)),
        out: Out::new(&dir),
        thorough,
        args: args[5..].to_vec(),
    };
    // corpus / replay first: files of request lines
    for f in ctx.args.clone() {
        if let Ok(text) = std::fs::read_to_string(&f) {
            for line in text.lines() {
                if !line.is_empty() && !line.starts_with('#') {
                    ctx.emit(line, true);
                    ctx.out.stat("corpus-lines");
                }
            }
        }
    }
    match prop {
        "replay" => {}
        "C01" => c01::run_c01(&mut ctx),
        "C08" => c01::run_c08(&mut ctx),
        "C02" => c02::run(&mut ctx),
        "C03" => c03::run(&mut ctx),
        "C04" => c04::run(&mut ctx),
        "C05" => c05::run(&mut ctx),
        "C06" => c06::run(&mut ctx),
        "C07" => c07::run(&mut ctx),
        "C09" => c09::run(&mut ctx),
        "C11" => c11::run_c11(&mut ctx),
        "C12" => c11::run_c12(&mut ctx),
        "C13" => c11::run_c13(&mut ctx),
        "C14" => c14::run(&mut ctx),
        "C17" => c17::run(&mut ctx),
        "C18" => c18::run(&mut ctx),
        "C19" => c19::run(&mut ctx),
        "C20" => c20::run(&mut ctx),
        "C15" => c15::run(&mut ctx),
        "C16" => c16::run(&mut ctx),
        _ => {
            eprintln!("unknown property {prop}");
            std::process::exit(2);
        }
    }
    c18::write_bindcheck(&dir);
    ctx.out.finish(&dir);
}
