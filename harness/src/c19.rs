//! C19 — all binding generators are total, deterministic and closed on checked programs.
//!   bind.all <hex .did source>   parse + check the program, run the JavaScript, TypeScript, Motoko and Rust (three
//!                                templates) generators twice each.  Answer `ok`, or the first of: `panic <gen>`,
//!                                `nondet <gen>`, `lex <gen>: <why>`, `open <gen>: <why>`.
//!   mo.label <hex name>          spelling of a field name in the Motoko binding (read off the output)
//!   ts.doc <hex line>            a doc-comment line as it appears in the TypeScript binding
//! Lexical integrity: the output is scanned with the target language's comment / string / bracket rules; every doc
//! line and quoted name supplied by the program must sit inside one comment or string token, brackets balance.
use crate::c14;
use crate::sexp;
use crate::{guarded, Ctx, Out};
use candid::types::internal::{Type, TypeInner};
use candid::types::TypeEnv;
use candid_parser::syntax::IDLMergedProg;

#[derive(Clone, Copy, PartialEq)]
pub enum Lang {
    Js,
    Motoko,
    Rust,
}

/// scan comments, strings, brackets.  Returns the list of (kind, text) tokens for comments and strings.
pub fn scan(lang: Lang, src: &str) -> Result<Vec<(char, String)>, String> {
    let cs: Vec<char> = src.chars().collect();
    let mut i = 0;
    let mut toks = vec![];
    let mut stack: Vec<char> = vec![];
    while i < cs.len() {
        let c = cs[i];
        let next = cs.get(i + 1).copied();
        if c == '/' && next == Some('/') {
            let s = i;
            while i < cs.len() && cs[i] != '\n' {
                i += 1;
            }
            toks.push(('c', cs[s..i].iter().collect()));
        } else if c == '/' && next == Some('*') {
            let s = i;
            i += 2;
            let mut depth = 1;
            loop {
                if i + 1 >= cs.len() {
                    return Err("unterminated block comment".into());
                }
                if cs[i] == '*' && cs[i + 1] == '/' {
                    depth -= 1;
                    i += 2;
                    if depth == 0 {
                        break;
                    }
                } else if lang != Lang::Js && cs[i] == '/' && cs[i + 1] == '*' {
                    depth += 1;
                    i += 2;
                } else {
                    i += 1;
                }
            }
            toks.push(('c', cs[s..i].iter().collect()));
        } else if c == '"' || (c == '\'' && lang == Lang::Js) || (c == '`' && lang == Lang::Js) {
            let s = i;
            i += 1;
            loop {
                if i >= cs.len() {
                    return Err("unterminated string".into());
                }
                if cs[i] == '\\' {
                    i += 2;
                } else if cs[i] == c {
                    i += 1;
                    break;
                } else if cs[i] == '\n' && c != '`' && lang != Lang::Rust {
                    return Err("line break inside a string".into());
                } else {
                    i += 1;
                }
            }
            toks.push(('s', cs[s..i.min(cs.len())].iter().collect()));
        } else if c == 'r' && lang == Lang::Rust && (next == Some('"') || (next == Some('#') && matches!(cs.get(i + 2), Some('"') | Some('#')))) {
            // raw string r#"…"#  (r#ident is a raw identifier: handled by the second test above)
            let s = i;
            i += 1;
            let mut hashes = 0;
            while cs.get(i) == Some(&'#') {
                hashes += 1;
                i += 1;
            }
            if cs.get(i) != Some(&'"') {
                // raw identifier
                continue;
            }
            i += 1;
            loop {
                if i >= cs.len() {
                    return Err("unterminated raw string".into());
                }
                if cs[i] == '"' && (0..hashes).all(|k| cs.get(i + 1 + k) == Some(&'#')) {
                    i += 1 + hashes;
                    break;
                }
                i += 1;
            }
            toks.push(('s', cs[s..i].iter().collect()));
        } else if c == '\'' && lang == Lang::Rust {
            // char literal or lifetime
            if cs.get(i + 2) == Some(&'\'') && next != Some('\\') {
                i += 3;
            } else if next == Some('\\') {
                i += 2;
                while i < cs.len() && cs[i] != '\'' {
                    i += 1;
                }
                i += 1;
            } else {
                i += 1;
            }
        } else {
            match c {
                '(' | '[' | '{' => stack.push(c),
                ')' | ']' | '}' => {
                    let want = match c {
                        ')' => '(',
                        ']' => '[',
                        _ => '{',
                    };
                    if stack.pop() != Some(want) {
                        return Err(format!("unbalanced {c}"));
                    }
                }
                _ => {}
            }
            i += 1;
        }
    }
    if !stack.is_empty() {
        return Err("unclosed bracket".into());
    }
    Ok(toks)
}

pub struct Checked {
    pub env: TypeEnv,
    pub actor: Option<Type>,
    pub prog: IDLMergedProg,
    pub docs: Vec<String>,
}

pub fn check_src(src: &str) -> Option<Checked> {
    let ast = src.parse::<candid_parser::IDLProg>().ok()?;
    let mut env = TypeEnv::new();
    let actor = candid_parser::check_prog(&mut env, &ast).ok()?;
    let docs: Vec<String> = src.lines().filter_map(|l| l.trim_start().strip_prefix("//").map(|d| d.trim_start_matches("//").trim().to_string())).filter(|d| !d.is_empty()).collect();
    Some(Checked { env, actor, prog: IDLMergedProg::new(ast), docs })
}

fn rust_config() -> candid_parser::bindings::rust::Config {
    use std::str::FromStr;
    candid_parser::bindings::rust::Config::new(candid_parser::configs::Configs::from_str("").unwrap())
}

pub fn generators() -> Vec<(&'static str, Lang)> {
    vec![("js", Lang::Js), ("ts", Lang::Js), ("motoko", Lang::Motoko), ("rust-call", Lang::Rust), ("rust-agent", Lang::Rust), ("rust-stub", Lang::Rust)]
}

pub fn run_gen(which: &str, c: &Checked) -> Result<String, String> {
    let (env, actor) = (c.env.clone(), c.actor.clone());
    // IDLMergedProg is not Clone: rebuild it from the printed syntax is not needed — generators take &prog
    let prog = &c.prog;
    let which = which.to_string();
    let r = std::panic::catch_unwind(std::panic::AssertUnwindSafe(|| match which.as_str() {
        "js" => candid_parser::bindings::javascript::compile(&env, &actor),
        "ts" => candid_parser::bindings::typescript::compile(&env, &actor, prog),
        "motoko" => candid_parser::bindings::motoko::compile(&env, &actor, prog),
        w => {
            use candid_parser::bindings::rust::{compile, ExternalConfig};
            let mut external = ExternalConfig::default();
            external.0.insert("canister_id".to_string(), "aaaaa-aa".to_string());
            let target = match w {
                "rust-agent" => "agent",
                "rust-stub" => "stub",
                _ => "canister_call",
            };
            external.0.insert("target".to_string(), target.to_string());
            compile(&rust_config(), &env, &actor, prog, external).0
        }
    }));
    r.map_err(|e| {
        if let Some(s) = e.downcast_ref::<String>() {
            s.clone()
        } else if let Some(s) = e.downcast_ref::<&str>() {
            s.to_string()
        } else {
            "?".into()
        }
    })
}

fn method_names(c: &Checked) -> Vec<String> {
    match &c.actor {
        Some(a) => c.env.as_service(a).map(|ms| ms.iter().map(|m| m.0.clone()).collect()).unwrap_or_default(),
        None => vec![],
    }
}

fn is_motoko_id(s: &str) -> bool {
    let mut cs = s.chars();
    matches!(cs.next(), Some(c) if c.is_ascii_alphabetic() || c == '_') && cs.all(|c| c.is_ascii_alphanumeric() || c == '_')
}

pub fn eval(out: &mut Out, op: &str, args: &[&str]) -> Option<String> {
    Some(match op {
        "bind.all" => {
            let src = String::from_utf8(sexp::unhx(args.first()?)?).ok()?;
            let Some(c) = check_src(&src) else { return Some("rejected".into()) };
            let methods = method_names(&c);
            // documented limit of the Motoko back end: every method name, of every service type in the program,
            // must be an identifier
            fn ids_only(t: &Type) -> bool {
                use TypeInner::*;
                match t.as_ref() {
                    Opt(x) | Vec(x) => ids_only(x),
                    Record(fs) | Variant(fs) => fs.iter().all(|f| ids_only(&f.ty)),
                    Func(f) => f.args.iter().chain(f.rets.iter()).all(ids_only),
                    Service(ms) => ms.iter().all(|(n, t)| is_motoko_id(n) && ids_only(t)),
                    Class(a, t) => a.iter().all(ids_only) && ids_only(t),
                    _ => true,
                }
            }
            let motoko_ok = c.env.0.values().all(ids_only) && c.actor.as_ref().map_or(true, ids_only);
            for (which, lang) in generators() {
                if which == "motoko" && !motoko_ok {
                    // documented limit of the Motoko back end: method names must be identifiers
                    out.stat("motoko-skipped-nonid-method");
                    continue;
                }
                let a = match run_gen(which, &c) {
                    Ok(a) => a,
                    Err(msg) => {
                        out.stat(&format!("panic:{which}:{}", &msg[..msg.len().min(40)]));
                        return Some(format!("panic {which}"));
                    }
                };
                if std::env::var_os("VERIF_DUMP").is_some() {
                    eprintln!("===== {which}\n{a}");
                }
                match run_gen(which, &c) {
                    Ok(b) if b == a => {}
                    _ => return Some(format!("nondet {which}")),
                }
                let toks = match scan(lang, &a) {
                    Ok(t) => t,
                    Err(why) => return Some(format!("lex {which}: {why}")),
                };
                if lang == Lang::Rust {
                    // the emitted file must be a Rust source file: parsed by syn (the parser proc macros use)
                    match syn::parse_file(&a) {
                        Err(e) => {
                            let m = e.to_string();
                            out.stat(&format!("syn:{}", &m[..m.len().min(40)]));
                            return Some(format!("lex {which}: not a Rust file"));
                        }
                        Ok(file) => {
                            // `static X: [u8; N] = *b"…"`: the declared length is the literal's
                            for item in &file.items {
                                if let syn::Item::Static(st) = item {
                                    if let (syn::Type::Array(arr), syn::Expr::Unary(u)) = (&*st.ty, &*st.expr) {
                                        if let (syn::Expr::Lit(syn::ExprLit { lit: syn::Lit::Int(n), .. }), syn::Expr::Lit(syn::ExprLit { lit: syn::Lit::ByteStr(b), .. })) = (&arr.len, &*u.expr) {
                                            if n.base10_parse::<usize>().ok() != Some(b.value().len()) {
                                                return Some(format!("lex {which}: byte string length differs from its declared length"));
                                            }
                                        }
                                    }
                                }
                            }
                        }
                    }
                }
                if which == "js" {
                    if let Err(why) = crate::jsmini::lex(&a) {
                        return Some(format!("lex js: {}", &why[..why.len().min(40)]));
                    }
                }
                // every doc line of the program is inside one comment token (when the generator carries docs)
                if which != "js" {
                    for d in &c.docs {
                        let probe: String = d.chars().filter(|ch| !ch.is_whitespace()).collect();
                        if probe.len() < 3 {
                            continue;
                        }
                        let inside = toks.iter().any(|(k, t)| {
                            *k == 'c' && {
                                let tt: String = t.replace("*\\/", "*/").chars().filter(|ch| !ch.is_whitespace()).collect();
                                tt.contains(&probe)
                            }
                        });
                        let anywhere: String = a.replace("*\\/", "*/").chars().filter(|ch| !ch.is_whitespace()).collect();
                        if anywhere.contains(&probe) && !inside {
                            return Some(format!("lex {which}: doc text outside a comment"));
                        }
                    }
                }
                // every method of the service is mentioned
                for m in &methods {
                    let needle_plain = m.clone();
                    let esc: String = m.escape_debug().to_string();
                    if !(a.contains(&needle_plain) || a.contains(&esc) || a.contains(&esc.replace("\\0", "\\u{0}"))) && !m.is_empty() {
                        // Rust and Motoko rename methods; their renamed form keeps the ASCII alphanumerics
                        let alnum: String = m.chars().filter(|ch| ch.is_ascii_alphanumeric()).collect();
                        if alnum.len() >= 2 && !a.to_lowercase().contains(&alnum.to_lowercase()) {
                            return Some(format!("open {which}: method {m:?} not mentioned"));
                        }
                    }
                }
            }
            "ok".into()
        }
        "mo.label" => {
            let name = String::from_utf8(sexp::unhx(args.first()?)?).ok()?;
            let mut q = String::from("\"");
            for b in name.as_bytes() {
                q.push_str(&format!("\\{:02x}", b));
            }
            q.push('"');
            let src = format!("type T = record {{ {q} : nat }};");
            let Some(c) = check_src(&src) else { return Some("rejected".into()) };
            match run_gen("motoko", &c) {
                Err(_) => "panic".into(),
                Ok(text) => {
                    // public type T = { <label> : Nat };
                    match text.split("public type T = {").nth(1).and_then(|r| r.split(':').next()) {
                        Some(l) => format!("ok {}", sexp::hx(l.trim().as_bytes())),
                        None => "err shape".into(),
                    }
                }
            }
        }
        "ts.doc" => {
            let line = String::from_utf8(sexp::unhx(args.first()?)?).ok()?;
            if line.contains('\n') || line.contains('\r') {
                return Some("rejected".into());
            }
            let src = format!("// {line}\ntype T = nat;");
            let Some(c) = check_src(&src) else { return Some("rejected".into()) };
            match run_gen("ts", &c) {
                Err(_) => "panic".into(),
                Ok(text) => {
                    let body: Vec<&str> = text.lines().filter(|l| l.starts_with(" * ")).collect();
                    match body.first() {
                        Some(l) => format!("ok {}", sexp::hx(l[3..].as_bytes())),
                        None => "ok -".into(),
                    }
                }
            }
        }
        _ => return None,
    })
}

const HOSTILE_DOCS: [&str; 22] = [
    "plain words", "*/ alert(1) /*", "*/", "/* nested", "\" quote", "' single", "` backtick ${x}", "{{ handlebars }}", "{{{raw}}}", "}} {{", "\\", "\\n",
    "*\\/", "**/", "/**/", "//", "<script>", "#[derive(Evil)]", "r#\"raw\"#", "é ü 漢字", "\t tab", "*/*/",
];

pub fn gen_source(ctx: &mut Ctx) -> Option<String> {
    let (decs, actor, _g, _d) = c14::gen_prog(ctx);
    // rename some definitions to target-language keywords
    let kws = ["class", "enum", "struct", "fn", "impl", "self_", "Self", "async", "await", "actor", "module", "object", "let", "loop", "label", "in", "not", "or", "and", "try", "throw", "assert", "Principal", "Box", "Option", "Vec", "String", "Result", "Service", "IDL", "ActorMethod"];
    let mut tau = std::collections::BTreeMap::new();
    for (n, _) in &decs {
        if ctx.rng.chance(1, 4) {
            let k = ctx.rng.pick(&kws).to_string();
            if !tau.values().any(|v| *v == k) {
                tau.insert(n.clone(), k);
            }
        }
    }
    let decs2: Vec<(String, Type)> = decs.iter().map(|(n, t)| (tau.get(n).cloned().unwrap_or(n.clone()), t.subst(&tau))).collect();
    let actor2 = actor.map(|a| a.subst(&tau));
    let base = c14::did_prog(&decs2, &actor2)?;
    // sprinkle doc comments before definitions, fields cannot carry them in this printer; the actor gets one too
    let mut out = String::new();
    for line in base.lines() {
        if (line.starts_with("type ") || line.starts_with("service")) && ctx.rng.chance(1, 2) {
            for _ in 0..ctx.rng.range(1, 2) {
                out.push_str(&format!("// {}\n", ctx.rng.pick(&HOSTILE_DOCS)));
            }
        }
        out.push_str(line);
        out.push('\n');
    }
    Some(out)
}

pub fn run(ctx: &mut Ctx) {
    let n = if ctx.thorough { 30_000 } else { 1_200 };
    for _ in 0..n {
        let Some(src) = gen_source(ctx) else {
            ctx.out.stat("skipped");
            continue;
        };
        ctx.emit(&format!("bind.all\t{}", sexp::hx(src.as_bytes())), true);
    }
    // Motoko label spelling
    let m = if ctx.thorough { 20_000 } else { 1_500 };
    for i in 0..m {
        let name = if i < 48 {
            ["actor", "and", "async", "assert", "await", "break", "case", "catch", "class", "continue", "composite", "debug", "debug_show", "else", "false", "flexible", "for", "from_candid", "func", "if", "in", "import", "module", "not", "null", "object", "or", "label", "let", "loop", "private", "public", "query", "return", "shared", "stable", "switch", "system", "try", "throw", "to_candid", "true", "type", "var", "while", "with", "func_", "a_"][i]
                .to_string()
        } else {
            crate::c11::hostile_name(ctx)
        };
        if name.is_empty() {
            continue;
        }
        ctx.emit(&format!("mo.label\t{}", sexp::hx(name.as_bytes())), true);
    }
    for d in HOSTILE_DOCS {
        ctx.emit(&format!("ts.doc\t{}", sexp::hx(d.trim().as_bytes())), true);
    }
    for _ in 0..(if ctx.thorough { 5_000 } else { 300 }) {
        let k = ctx.rng.range(1, 6);
        let s: String = (0..k).map(|_| *ctx.rng.pick(&["*", "/", "\\", "a", " ", "*/", "/*"])).collect::<Vec<_>>().concat();
        let s = s.trim().to_string();
        if s.is_empty() {
            continue;
        }
        ctx.emit(&format!("ts.doc\t{}", sexp::hx(s.as_bytes())), true);
    }
}
