//! The Rust-type corpus for C01 / C08 (and the native side of C04 / C06): containers instantiated over a
//! family of element types (cross products for maps, vectors, options, tuples, arrays, sets), derived
//! structs and enums (renames, raw identifiers, tuple / newtype / unit variants, generics, recursive and
//! mutually recursive types), references.  Every corpus type knows how to generate a value, how to turn
//! a value into the abstract `IDLValue` it denotes (written by hand here, independently of the encoder),
//! and which untyped values are outside its host limits.
use crate::Rng;
use candid::types::reference::{Func, Service};
use candid::types::value::{IDLField, IDLValue, VariantValue};
use candid::types::Label;
use candid::{CandidType, Decode, Deserialize, Encode, Int, Nat, Principal, Reserved};
use serde_bytes::ByteBuf;
use std::collections::{BTreeMap, BTreeSet, HashMap};

pub trait Corp: CandidType + for<'de> Deserialize<'de> + Sized + 'static {
    fn arb(r: &mut Rng, d: u32) -> Self;
    /// the abstract value this Rust value denotes (labels as the derive macro assigns them)
    fn idl(&self) -> IDLValue;
    /// is the untyped value `v` (already of this type's Candid type) within the host limits of the Rust type?
    fn host_ok(_v: &IDLValue) -> bool {
        true
    }
    /// no duplicate keys / set elements anywhere (the property excludes them)
    fn no_dups(_v: &IDLValue) -> bool {
        true
    }
    /// iteration order of the Rust value is not deterministic (hash maps): re-encoding may permute
    const HASHY: bool = false;
    /// `DataSize::data_size` of the Rust value an untyped value of this type would decode to
    fn data_size_of(_v: &IDLValue) -> usize {
        0
    }
    /// which serde entry points this type's `Deserialize` drives: a term of the grammar `RTy` of the native decoder
    /// mirror (lean/CandidModel/Native.lean); named (possibly recursive) types are collected in `defs`
    fn rdesc(defs: &mut Defs) -> String;
}
pub type Defs = Vec<(String, String)>;
fn nlab(s: &str) -> String {
    format!("n{}", hex::encode(s.as_bytes()))
}
/// a named Rust type: its body is computed once, references to it are `(ref <hex name>)`
fn named_def<T>(defs: &mut Defs, body: fn(&mut Defs) -> String) -> String {
    let key = hex::encode(std::any::type_name::<T>().as_bytes());
    if !defs.iter().any(|d| d.0 == key) {
        defs.push((key.clone(), String::new()));
        let b = body(defs);
        if let Some(d) = defs.iter_mut().find(|d| d.0 == key) {
            d.1 = b;
        }
    }
    format!("(ref {key})")
}
pub fn rust_desc<T: Corp>() -> String {
    let mut defs: Defs = vec![];
    let t = T::rdesc(&mut defs);
    format!("(rust (defs{}) {t})", defs.iter().map(|(k, b)| format!(" ({k} {b})")).collect::<String>())
}

fn named(s: &str) -> Label {
    Label::Named(s.to_string())
}
fn rec(mut fs: Vec<(Label, IDLValue)>) -> IDLValue {
    fs.sort_by_key(|f| f.0.get_id());
    IDLValue::Record(fs.into_iter().map(|(id, val)| IDLField { id, val }).collect())
}
fn var(l: Label, v: IDLValue) -> IDLValue {
    IDLValue::Variant(VariantValue(Box::new(IDLField { id: l, val: v }), 0))
}
fn tuple(vs: Vec<IDLValue>) -> IDLValue {
    IDLValue::Record(vs.into_iter().enumerate().map(|(i, val)| IDLField { id: Label::Id(i as u32), val }).collect())
}

macro_rules! prim {
    ($t:ty, $arb:expr, $idl:expr, $desc:expr) => {
        impl Corp for $t {
            fn rdesc(_defs: &mut Defs) -> String {
                $desc.to_string()
            }
            fn arb(r: &mut Rng, _d: u32) -> Self {
                let f: fn(&mut Rng) -> $t = $arb;
                f(r)
            }
            fn idl(&self) -> IDLValue {
                let f: fn(&$t) -> IDLValue = $idl;
                f(self)
            }
        }
    };
}
prim!(bool, |r| r.chance(1, 2), |v| IDLValue::Bool(*v), "bool");
impl Corp for u8 {
    fn rdesc(_d: &mut Defs) -> String {
        "nat8".into()
    }
    fn arb(r: &mut Rng, _d: u32) -> Self {
        r.next() as u8
    }
    fn idl(&self) -> IDLValue {
        IDLValue::Nat8(*self)
    }
    fn data_size_of(_v: &IDLValue) -> usize {
        1
    }
}
prim!(u16, |r| r.next() as u16, |v| IDLValue::Nat16(*v), "nat16");
prim!(u32, |r| r.next() as u32, |v| IDLValue::Nat32(*v), "nat32");
impl Corp for u64 {
    fn rdesc(_d: &mut Defs) -> String {
        "nat64".into()
    }
    fn arb(r: &mut Rng, _d: u32) -> Self {
        edge64(r)
    }
    fn idl(&self) -> IDLValue {
        IDLValue::Nat64(*self)
    }
    fn data_size_of(_v: &IDLValue) -> usize {
        8
    }
}
prim!(i8, |r| r.next() as i8, |v| IDLValue::Int8(*v), "int8");
prim!(i16, |r| r.next() as i16, |v| IDLValue::Int16(*v), "int16");
prim!(i32, |r| r.next() as i32, |v| IDLValue::Int32(*v), "int32");
prim!(i64, |r| edge64(r) as i64, |v| IDLValue::Int64(*v), "int64");
prim!(f32, |r| f32::from_bits(r.next() as u32), |v| IDLValue::Float32(*v), "float32");
prim!(f64, |r| f64::from_bits(r.next()), |v| IDLValue::Float64(*v), "float64");
impl Corp for String {
    fn rdesc(_d: &mut Defs) -> String {
        "text".into()
    }
    fn arb(r: &mut Rng, _d: u32) -> Self {
        crate::gen::text(r)
    }
    fn idl(&self) -> IDLValue {
        IDLValue::Text(self.clone())
    }
    fn data_size_of(v: &IDLValue) -> usize {
        match v {
            IDLValue::Text(s) => s.len(),
            _ => 0,
        }
    }
}
prim!((), |_r| (), |_v| IDLValue::Null, "null");
prim!(Reserved, |_r| Reserved, |_v| IDLValue::Reserved, "Reserved");
prim!(Principal, |r| crate::gen::principal(r), |v| IDLValue::Principal(*v), "Principal");
prim!(ByteBuf, |r| { let n = r.below(5) as usize; ByteBuf::from(r.bytes(n)) }, |v| IDLValue::Blob(v.to_vec()), "ByteBuf");

fn edge64(r: &mut Rng) -> u64 {
    match r.below(6) {
        0 => 0,
        1 => u64::MAX,
        2 => 1 << 63,
        3 => (1 << 63) - 1,
        4 => r.below(200),
        _ => r.next(),
    }
}
fn bignat(r: &mut Rng) -> num_bigint::BigUint {
    use num_bigint::BigUint;
    match r.below(7) {
        0 => BigUint::from(r.below(128)),
        1 => BigUint::from(r.next()),
        2 => BigUint::from_bytes_le(&r.bytes(12)),
        3 => BigUint::from(1u8) << (*r.pick(&[6usize, 7, 13, 14, 62, 63, 64, 70, 127, 128])),
        4 => (BigUint::from(1u8) << (*r.pick(&[7usize, 63, 64, 128]))) - 1u8,
        _ => BigUint::from(r.below(100_000)),
    }
}
impl Corp for Nat {
    fn rdesc(_d: &mut Defs) -> String {
        "Nat".into()
    }
    fn arb(r: &mut Rng, _d: u32) -> Self {
        Nat(bignat(r))
    }
    fn idl(&self) -> IDLValue {
        IDLValue::Nat(self.clone())
    }
}
impl Corp for Int {
    fn rdesc(_d: &mut Defs) -> String {
        "Int".into()
    }
    fn arb(r: &mut Rng, _d: u32) -> Self {
        let m = num_bigint::BigInt::from(bignat(r));
        Int(if r.chance(1, 2) { -m } else { m })
    }
    fn idl(&self) -> IDLValue {
        IDLValue::Int(self.clone())
    }
}
impl Corp for u128 {
    fn rdesc(_d: &mut Defs) -> String {
        "u128".into()
    }
    fn arb(r: &mut Rng, _d: u32) -> Self {
        match r.below(4) {
            0 => u128::MAX,
            1 => 1u128 << 127,
            2 => r.next() as u128,
            _ => ((r.next() as u128) << 64) | r.next() as u128,
        }
    }
    fn idl(&self) -> IDLValue {
        IDLValue::Nat(Nat::from(*self))
    }
    fn host_ok(v: &IDLValue) -> bool {
        matches!(v, IDLValue::Nat(n) if n.0.bits() <= 128)
    }
}
impl Corp for i128 {
    fn rdesc(_d: &mut Defs) -> String {
        "i128".into()
    }
    fn arb(r: &mut Rng, _d: u32) -> Self {
        match r.below(4) {
            0 => i128::MAX,
            1 => i128::MIN,
            2 => r.next() as i64 as i128,
            _ => (((r.next() as u128) << 64) | r.next() as u128) as i128,
        }
    }
    fn idl(&self) -> IDLValue {
        IDLValue::Int(Int::from(*self))
    }
    fn host_ok(v: &IDLValue) -> bool {
        use num_bigint::BigInt;
        match v {
            IDLValue::Int(i) => i.0 >= BigInt::from(i128::MIN) && i.0 <= BigInt::from(i128::MAX),
            _ => false,
        }
    }
}

impl<T: Corp> Corp for Option<T> {
    fn rdesc(d: &mut Defs) -> String {
        format!("(opt {})", T::rdesc(d))
    }
    fn arb(r: &mut Rng, d: u32) -> Self {
        if d == 0 || r.chance(1, 3) {
            None
        } else {
            Some(T::arb(r, d - 1))
        }
    }
    fn idl(&self) -> IDLValue {
        match self {
            None => IDLValue::None,
            Some(v) => IDLValue::Opt(Box::new(v.idl())),
        }
    }
    fn host_ok(v: &IDLValue) -> bool {
        match v {
            IDLValue::Opt(x) => T::host_ok(x),
            _ => true,
        }
    }
    fn no_dups(v: &IDLValue) -> bool {
        match v {
            IDLValue::Opt(x) => T::no_dups(x),
            _ => true,
        }
    }
}
impl<T: Corp> Corp for Box<T> {
    fn rdesc(d: &mut Defs) -> String {
        T::rdesc(d)
    }
    fn arb(r: &mut Rng, d: u32) -> Self {
        Box::new(T::arb(r, d))
    }
    fn idl(&self) -> IDLValue {
        (**self).idl()
    }
    fn host_ok(v: &IDLValue) -> bool {
        T::host_ok(v)
    }
    fn no_dups(v: &IDLValue) -> bool {
        T::no_dups(v)
    }
}
fn seq_idl<T: Corp>(it: impl Iterator<Item = IDLValue>, _p: std::marker::PhantomData<T>) -> IDLValue {
    let vs: Vec<IDLValue> = it.collect();
    // `vec nat8` is the blob form in the untyped world
    if matches!(T::ty().as_ref(), candid::types::internal::TypeInner::Nat8) {
        IDLValue::Blob(vs.iter().map(|v| if let IDLValue::Nat8(b) = v { *b } else { 0 }).collect())
    } else {
        IDLValue::Vec(vs)
    }
}
fn elems(v: &IDLValue) -> Vec<IDLValue> {
    match v {
        IDLValue::Vec(xs) => xs.clone(),
        IDLValue::Blob(b) => b.iter().map(|x| IDLValue::Nat8(*x)).collect(),
        _ => vec![],
    }
}
impl<T: Corp> Corp for Vec<T> {
    fn rdesc(d: &mut Defs) -> String {
        format!("(seq {})", T::rdesc(d))
    }
    fn arb(r: &mut Rng, d: u32) -> Self {
        let n = if d == 0 { 0 } else { r.below(4) };
        (0..n).map(|_| T::arb(r, d - 1)).collect()
    }
    fn idl(&self) -> IDLValue {
        seq_idl::<T>(self.iter().map(|x| x.idl()), std::marker::PhantomData)
    }
    fn host_ok(v: &IDLValue) -> bool {
        elems(v).iter().all(T::host_ok)
    }
    fn no_dups(v: &IDLValue) -> bool {
        elems(v).iter().all(T::no_dups)
    }
}
impl<T: Corp + Ord> Corp for BTreeSet<T> {
    fn rdesc(d: &mut Defs) -> String {
        format!("(seq {})", T::rdesc(d))
    }
    fn arb(r: &mut Rng, d: u32) -> Self {
        let n = if d == 0 { 0 } else { r.below(4) };
        (0..n).map(|_| T::arb(r, d - 1)).collect()
    }
    fn idl(&self) -> IDLValue {
        seq_idl::<T>(self.iter().map(|x| x.idl()), std::marker::PhantomData)
    }
    fn host_ok(v: &IDLValue) -> bool {
        elems(v).iter().all(T::host_ok)
    }
    fn no_dups(v: &IDLValue) -> bool {
        let e = elems(v);
        let keys: Vec<String> = e.iter().map(|x| crate::sexp::val(x, true)).collect();
        let set: BTreeSet<&String> = keys.iter().collect();
        // also sorted input is not required; only distinctness matters for agreement of lengths
        set.len() == keys.len() && e.iter().all(T::no_dups)
    }
}
impl<T: Corp> Corp for [T; 2] {
    fn rdesc(d: &mut Defs) -> String {
        format!("(array 2 {})", T::rdesc(d))
    }
    fn arb(r: &mut Rng, d: u32) -> Self {
        std::array::from_fn(|_| T::arb(r, d.saturating_sub(1)))
    }
    fn idl(&self) -> IDLValue {
        seq_idl::<T>(self.iter().map(|x| x.idl()), std::marker::PhantomData)
    }
    fn host_ok(v: &IDLValue) -> bool {
        let e = elems(v);
        e.len() == 2 && e.iter().all(T::host_ok)
    }
    fn no_dups(v: &IDLValue) -> bool {
        elems(v).iter().all(T::no_dups)
    }
}
fn pair_ok<K: Corp, V: Corp>(v: &IDLValue, f: fn(&IDLValue) -> bool, g: fn(&IDLValue) -> bool) -> bool {
    elems(v).iter().all(|e| match e {
        IDLValue::Record(fs) if fs.len() == 2 => f(&fs[0].val) && g(&fs[1].val),
        _ => false,
    })
}
fn map_no_dups<K: Corp, V: Corp>(v: &IDLValue) -> bool {
    let e = elems(v);
    let keys: Vec<String> = e
        .iter()
        .map(|x| match x {
            IDLValue::Record(fs) if !fs.is_empty() => crate::sexp::val(&fs[0].val, true),
            _ => String::new(),
        })
        .collect();
    let set: BTreeSet<&String> = keys.iter().collect();
    set.len() == keys.len() && pair_ok::<K, V>(v, K::no_dups, V::no_dups)
}
impl<K: Corp + Ord, V: Corp> Corp for BTreeMap<K, V> {
    fn rdesc(d: &mut Defs) -> String {
        format!("(map {} {})", K::rdesc(d), V::rdesc(d))
    }
    fn arb(r: &mut Rng, d: u32) -> Self {
        let n = if d == 0 { 0 } else { r.below(4) };
        (0..n).map(|_| (K::arb(r, d - 1), V::arb(r, d - 1))).collect()
    }
    fn idl(&self) -> IDLValue {
        IDLValue::Vec(self.iter().map(|(k, v)| tuple(vec![k.idl(), v.idl()])).collect())
    }
    fn host_ok(v: &IDLValue) -> bool {
        pair_ok::<K, V>(v, K::host_ok, V::host_ok)
    }
    fn no_dups(v: &IDLValue) -> bool {
        map_no_dups::<K, V>(v)
    }
}
impl<K: Corp + Eq + std::hash::Hash + Ord, V: Corp> Corp for HashMap<K, V> {
    fn rdesc(d: &mut Defs) -> String {
        format!("(map {} {})", K::rdesc(d), V::rdesc(d))
    }
    const HASHY: bool = true;
    fn arb(r: &mut Rng, d: u32) -> Self {
        let n = if d == 0 { 0 } else { r.below(3) };
        (0..n).map(|_| (K::arb(r, d - 1), V::arb(r, d - 1))).collect()
    }
    fn idl(&self) -> IDLValue {
        // iteration order of a HashMap is not defined: the abstract value is compared as a sorted multiset
        let mut v: Vec<(&K, &V)> = self.iter().collect();
        v.sort_by(|a, b| a.0.cmp(b.0));
        IDLValue::Vec(v.into_iter().map(|(k, v)| tuple(vec![k.idl(), v.idl()])).collect())
    }
    fn host_ok(v: &IDLValue) -> bool {
        pair_ok::<K, V>(v, K::host_ok, V::host_ok)
    }
    fn no_dups(v: &IDLValue) -> bool {
        map_no_dups::<K, V>(v)
    }
}
macro_rules! tup {
    ($($n:ident : $i:tt),+) => {
        impl<$($n: Corp),+> Corp for ($($n,)+) {
            fn rdesc(d: &mut Defs) -> String { let mut s = String::from("(tuple"); $( s.push(' '); s.push_str(&$n::rdesc(d)); )+ s.push(')'); s }
            fn arb(r: &mut Rng, d: u32) -> Self { ($($n::arb(r, d.saturating_sub(1)),)+) }
            fn idl(&self) -> IDLValue { tuple(vec![$(self.$i.idl()),+]) }
            fn host_ok(v: &IDLValue) -> bool {
                match v { IDLValue::Record(fs) => { let mut ok = true; $( ok = ok && fs.get($i).map_or(false, |f| $n::host_ok(&f.val)); )+ ok } _ => false }
            }
            fn no_dups(v: &IDLValue) -> bool {
                match v { IDLValue::Record(fs) => { let mut ok = true; $( ok = ok && fs.get($i).map_or(true, |f| $n::no_dups(&f.val)); )+ ok } _ => true }
            }
        }
    };
}
tup!(A: 0);
tup!(A: 0, B: 1);
tup!(A: 0, B: 1, C: 2);

impl<T: Corp, E: Corp> Corp for Result<T, E> {
    fn rdesc(d: &mut Defs) -> String {
        format!("(enum ({} newtype {}) ({} newtype {}))", nlab("Ok"), T::rdesc(d), nlab("Err"), E::rdesc(d))
    }
    fn arb(r: &mut Rng, d: u32) -> Self {
        if r.chance(1, 2) {
            Ok(T::arb(r, d.saturating_sub(1)))
        } else {
            Err(E::arb(r, d.saturating_sub(1)))
        }
    }
    fn idl(&self) -> IDLValue {
        match self {
            Ok(v) => var(named("Ok"), v.idl()),
            Err(e) => var(named("Err"), e.idl()),
        }
    }
    // host limits and duplicates of the payload are those of the alternative taken
    fn host_ok(v: &IDLValue) -> bool {
        match v {
            IDLValue::Variant(x) if x.0.id.get_id() == candid::idl_hash("Ok") => T::host_ok(&x.0.val),
            IDLValue::Variant(x) if x.0.id.get_id() == candid::idl_hash("Err") => E::host_ok(&x.0.val),
            _ => true,
        }
    }
    fn no_dups(v: &IDLValue) -> bool {
        match v {
            IDLValue::Variant(x) if x.0.id.get_id() == candid::idl_hash("Ok") => T::no_dups(&x.0.val),
            IDLValue::Variant(x) if x.0.id.get_id() == candid::idl_hash("Err") => E::no_dups(&x.0.val),
            _ => true,
        }
    }
}

use candid::types::bounded_vec::{BoundedVec, UNBOUNDED};
// `DataSize` is private to the crate: the bounded vectors are instantiated at concrete element types
macro_rules! bounded {
    ($l:expr, $s:expr, $e:expr, $t:ty) => {
        impl Corp for BoundedVec<{ $l }, { $s }, { $e }, $t> {
            fn rdesc(d: &mut Defs) -> String {
                const L: usize = $l;
                const S: usize = $s;
                const E: usize = $e;
                format!("(bounded {L} {S} {E} {})", <$t>::rdesc(d))
            }
            fn arb(r: &mut Rng, d: u32) -> Self {
                const L: usize = $l;
                const S: usize = $s;
                // lengths around the limit, also beyond it (the constructor does not check)
                let around = if L != UNBOUNDED { L } else if S != UNBOUNDED { S / 4 + 1 } else { 3 };
                let n = match r.below(4) {
                    0 => around.saturating_sub(1),
                    1 => around,
                    2 => around + 1,
                    _ => r.below(around as u64 + 3) as usize,
                };
                BoundedVec::new((0..n).map(|_| <$t>::arb(r, d)).collect())
            }
            fn idl(&self) -> IDLValue {
                seq_idl::<$t>(self.get().iter().map(|x| x.idl()), std::marker::PhantomData)
            }
            /// exactly the vectors within the limits
            fn host_ok(v: &IDLValue) -> bool {
                const L: usize = $l;
                const S: usize = $s;
                const E: usize = $e;
                let e = elems(v);
                if e.len() > L {
                    return false;
                }
                let mut total = 0usize;
                for x in &e {
                    let sz = <$t>::data_size_of(x);
                    if sz > E {
                        return false;
                    }
                    total += sz;
                    if total > S {
                        return false;
                    }
                }
                true
            }
        }
    };
}
bounded!(4, UNBOUNDED, UNBOUNDED, u8);
bounded!(UNBOUNDED, 16, UNBOUNDED, u64);
bounded!(UNBOUNDED, 10, 6, String);
bounded!(3, 12, 5, String);
bounded!(2, UNBOUNDED, 3, String);

// ---------------------------------------------------------------------------------------- derived types

#[derive(CandidType, Deserialize, Clone, Debug, PartialEq, Eq, PartialOrd, Ord)]
pub struct Point {
    pub x: i32,
    pub y: i32,
}
impl Corp for Point {
    fn rdesc(d: &mut Defs) -> String {
        named_def::<Self>(d, |_d| format!("(struct ({} field int32) ({} field int32))", nlab("x"), nlab("y")))
    }
    fn arb(r: &mut Rng, d: u32) -> Self {
        Point { x: i32::arb(r, d), y: i32::arb(r, d) }
    }
    fn idl(&self) -> IDLValue {
        rec(vec![(named("x"), self.x.idl()), (named("y"), self.y.idl())])
    }
}

#[derive(CandidType, Deserialize, Clone, Debug, PartialEq)]
pub struct Renamed {
    #[serde(rename = "a b")]
    pub first: Nat,
    #[serde(rename = "🦀")]
    pub second: Option<String>,
    pub r#type: u8,
    #[serde(rename = "1")]
    pub numeric_looking: bool,
    pub _underscore_: Int,
}
impl Corp for Renamed {
    fn rdesc(d: &mut Defs) -> String {
        named_def::<Self>(d, |_d| {
            format!(
                "(struct ({} field Nat) ({} field (opt text)) ({} field nat8) ({} field bool) ({} field Int))",
                nlab("a b"),
                nlab("🦀"),
                nlab("type"),
                nlab("1"),
                nlab("_underscore_")
            )
        })
    }
    fn arb(r: &mut Rng, d: u32) -> Self {
        Renamed {
            first: Nat::arb(r, d),
            second: Option::<String>::arb(r, d.max(1)),
            r#type: u8::arb(r, d),
            numeric_looking: bool::arb(r, d),
            _underscore_: Int::arb(r, d),
        }
    }
    fn idl(&self) -> IDLValue {
        rec(vec![
            (named("a b"), self.first.idl()),
            (named("🦀"), self.second.idl()),
            (named("type"), self.r#type.idl()),
            (named("1"), self.numeric_looking.idl()),
            (named("_underscore_"), self._underscore_.idl()),
        ])
    }
}

/// raw-identifier fields next to ordinary ones: the derive macro orders the fields by the hash of the label, which is
/// the identifier without `r#` (`type` sorts after `name`, `r#type` would sort before it)
#[derive(CandidType, Deserialize, Clone, Debug, PartialEq)]
pub struct RawFields {
    pub r#type: String,
    pub name: String,
    pub value: Nat,
    pub r#fn: u8,
    pub r#match: Option<i16>,
    pub id: u64,
    pub r#loop: bool,
}
impl Corp for RawFields {
    fn rdesc(d: &mut Defs) -> String {
        named_def::<Self>(d, |d| {
            format!(
                "(struct ({} field {}) ({} field {}) ({} field {}) ({} field {}) ({} field {}) ({} field {}) ({} field {}))",
                nlab("type"),
                String::rdesc(d),
                nlab("name"),
                String::rdesc(d),
                nlab("value"),
                Nat::rdesc(d),
                nlab("fn"),
                u8::rdesc(d),
                nlab("match"),
                Option::<i16>::rdesc(d),
                nlab("id"),
                u64::rdesc(d),
                nlab("loop"),
                bool::rdesc(d)
            )
        })
    }
    fn arb(r: &mut Rng, d: u32) -> Self {
        RawFields {
            r#type: String::arb(r, d),
            name: String::arb(r, d),
            value: Nat::arb(r, d),
            r#fn: u8::arb(r, d),
            r#match: Option::<i16>::arb(r, d.max(1)),
            id: u64::arb(r, d),
            r#loop: bool::arb(r, d),
        }
    }
    fn idl(&self) -> IDLValue {
        rec(vec![
            (named("type"), self.r#type.idl()),
            (named("name"), self.name.idl()),
            (named("value"), self.value.idl()),
            (named("fn"), self.r#fn.idl()),
            (named("match"), self.r#match.idl()),
            (named("id"), self.id.idl()),
            (named("loop"), self.r#loop.idl()),
        ])
    }
}

#[derive(CandidType, Deserialize, Clone, Debug, PartialEq)]
pub struct Wrap<T>(pub T);
impl<T: Corp> Corp for Wrap<T> {
    fn rdesc(d: &mut Defs) -> String {
        format!("(newtype {})", T::rdesc(d))
    }
    fn arb(r: &mut Rng, d: u32) -> Self {
        Wrap(T::arb(r, d))
    }
    fn idl(&self) -> IDLValue {
        // a newtype struct is transparent
        self.0.idl()
    }
    fn host_ok(v: &IDLValue) -> bool {
        T::host_ok(v)
    }
    fn no_dups(v: &IDLValue) -> bool {
        T::no_dups(v)
    }
}

#[derive(CandidType, Deserialize, Clone, Debug, PartialEq)]
pub struct Pair<A, B>(pub A, pub B);
impl<A: Corp, B: Corp> Corp for Pair<A, B> {
    fn rdesc(d: &mut Defs) -> String {
        format!("(tuple {} {})", A::rdesc(d), B::rdesc(d))
    }
    fn arb(r: &mut Rng, d: u32) -> Self {
        Pair(A::arb(r, d.saturating_sub(1)), B::arb(r, d.saturating_sub(1)))
    }
    fn idl(&self) -> IDLValue {
        tuple(vec![self.0.idl(), self.1.idl()])
    }
    fn host_ok(v: &IDLValue) -> bool {
        <(A, B)>::host_ok(v)
    }
    fn no_dups(v: &IDLValue) -> bool {
        <(A, B)>::no_dups(v)
    }
}

#[derive(CandidType, Deserialize, Clone, Debug, PartialEq)]
pub struct Generic<T, U> {
    pub left: T,
    pub right: Vec<U>,
    pub both: Option<Box<Generic<U, T>>>,
}
impl<T: Corp, U: Corp> Corp for Generic<T, U> {
    fn rdesc(d: &mut Defs) -> String {
        named_def::<Self>(d, |d| {
            format!(
                "(struct ({} field {}) ({} field (seq {})) ({} field (opt {})))",
                nlab("left"),
                T::rdesc(d),
                nlab("right"),
                U::rdesc(d),
                nlab("both"),
                Generic::<U, T>::rdesc(d)
            )
        })
    }
    fn arb(r: &mut Rng, d: u32) -> Self {
        Generic {
            left: T::arb(r, d.saturating_sub(1)),
            right: Vec::<U>::arb(r, d.saturating_sub(1)),
            both: if d > 1 && r.chance(1, 2) { Some(Box::new(Generic::<U, T>::arb(r, d - 1))) } else { None },
        }
    }
    fn idl(&self) -> IDLValue {
        rec(vec![
            (named("left"), self.left.idl()),
            (named("right"), self.right.idl()),
            (named("both"), self.both.idl()),
        ])
    }
}

#[derive(CandidType, Deserialize, Clone, Debug, PartialEq)]
pub enum Shape {
    Dot,
    Circle(u32),
    Rect { w: u16, h: u16 },
    Poly(Vec<Point>, bool),
    #[serde(rename = "re named")]
    Renamed(Option<Box<Shape>>),
    r#match,
}
impl Corp for Shape {
    fn rdesc(d: &mut Defs) -> String {
        named_def::<Self>(d, |d| {
            format!(
                "(enum ({} unit null) ({} newtype nat32) ({} struct (struct ({} field nat16) ({} field nat16))) ({} tuple (tuple (seq {}) bool)) ({} newtype (opt {})) ({} unit null))",
                nlab("Dot"),
                nlab("Circle"),
                nlab("Rect"),
                nlab("w"),
                nlab("h"),
                nlab("Poly"),
                Point::rdesc(d),
                nlab("re named"),
                Shape::rdesc(d),
                nlab("match")
            )
        })
    }
    fn arb(r: &mut Rng, d: u32) -> Self {
        match r.below(if d == 0 { 3 } else { 6 }) {
            0 => Shape::Dot,
            1 => Shape::Circle(u32::arb(r, d)),
            2 => Shape::r#match,
            3 => Shape::Rect { w: u16::arb(r, d), h: u16::arb(r, d) },
            4 => Shape::Poly(Vec::<Point>::arb(r, d - 1), bool::arb(r, d)),
            _ => Shape::Renamed(Option::<Box<Shape>>::arb(r, d - 1)),
        }
    }
    fn idl(&self) -> IDLValue {
        match self {
            Shape::Dot => var(named("Dot"), IDLValue::Null),
            Shape::Circle(n) => var(named("Circle"), n.idl()),
            Shape::Rect { w, h } => var(named("Rect"), rec(vec![(named("w"), w.idl()), (named("h"), h.idl())])),
            Shape::Poly(v, b) => var(named("Poly"), tuple(vec![v.idl(), b.idl()])),
            Shape::Renamed(o) => var(named("re named"), o.idl()),
            Shape::r#match => var(named("match"), IDLValue::Null),
        }
    }
}

#[derive(CandidType, Deserialize, Clone, Debug, PartialEq)]
pub struct List {
    pub head: Int,
    pub tail: Option<Box<List>>,
}
impl Corp for List {
    fn rdesc(d: &mut Defs) -> String {
        named_def::<Self>(d, |d| format!("(struct ({} field Int) ({} field (opt {})))", nlab("head"), nlab("tail"), List::rdesc(d)))
    }
    fn arb(r: &mut Rng, d: u32) -> Self {
        List { head: Int::arb(r, d), tail: if d == 0 { None } else { Option::<Box<List>>::arb(r, d) } }
    }
    fn idl(&self) -> IDLValue {
        rec(vec![(named("head"), self.head.idl()), (named("tail"), self.tail.idl())])
    }
}

#[derive(CandidType, Deserialize, Clone, Debug, PartialEq)]
pub struct Tree {
    pub label: String,
    pub children: Vec<Forest>,
}
#[derive(CandidType, Deserialize, Clone, Debug, PartialEq)]
pub enum Forest {
    Leaf,
    Node(Box<Tree>),
    Many(BTreeMap<String, Tree>),
}
impl Corp for Tree {
    fn rdesc(d: &mut Defs) -> String {
        named_def::<Self>(d, |d| format!("(struct ({} field text) ({} field (seq {})))", nlab("label"), nlab("children"), Forest::rdesc(d)))
    }
    fn arb(r: &mut Rng, d: u32) -> Self {
        Tree { label: String::arb(r, d), children: if d == 0 { vec![] } else { Vec::<Forest>::arb(r, d.min(2)) } }
    }
    fn idl(&self) -> IDLValue {
        rec(vec![(named("label"), self.label.idl()), (named("children"), self.children.idl())])
    }
    fn no_dups(v: &IDLValue) -> bool {
        match v {
            IDLValue::Record(fs) => fs.iter().all(|f| match &f.val {
                IDLValue::Vec(xs) => xs.iter().all(Forest::no_dups),
                _ => true,
            }),
            _ => true,
        }
    }
}
impl Corp for Forest {
    fn rdesc(d: &mut Defs) -> String {
        named_def::<Self>(d, |d| {
            format!(
                "(enum ({} unit null) ({} newtype {}) ({} newtype (map text {})))",
                nlab("Leaf"),
                nlab("Node"),
                Tree::rdesc(d),
                nlab("Many"),
                Tree::rdesc(d)
            )
        })
    }
    fn arb(r: &mut Rng, d: u32) -> Self {
        match r.below(if d == 0 { 1 } else { 3 }) {
            0 => Forest::Leaf,
            1 => Forest::Node(Box::new(Tree::arb(r, d - 1))),
            _ => Forest::Many(BTreeMap::<String, Tree>::arb(r, d.min(2))),
        }
    }
    fn idl(&self) -> IDLValue {
        match self {
            Forest::Leaf => var(named("Leaf"), IDLValue::Null),
            Forest::Node(t) => var(named("Node"), t.idl()),
            Forest::Many(m) => var(named("Many"), m.idl()),
        }
    }
    fn no_dups(v: &IDLValue) -> bool {
        match v {
            IDLValue::Variant(x) if x.0.id.get_id() == candid::idl_hash("Many") => BTreeMap::<String, Tree>::no_dups(&x.0.val),
            IDLValue::Variant(x) if x.0.id.get_id() == candid::idl_hash("Node") => Tree::no_dups(&x.0.val),
            _ => true,
        }
    }
}

candid::define_function!(pub Callback : (Nat, Option<Point>) -> (Result<(), String>) query);
candid::define_service!(pub Counter : {
    "inc" : candid::func!((Nat) -> ());
    "get" : candid::func!(() -> (Nat) query);
    "cb" : Callback::ty()
});
impl Corp for Callback {
    fn rdesc(_d: &mut Defs) -> String {
        "(newtype Func)".into()
    }
    fn arb(r: &mut Rng, _d: u32) -> Self {
        Callback::new(crate::gen::principal(r), r.pick(&["get", "m", ""]).to_string())
    }
    fn idl(&self) -> IDLValue {
        IDLValue::Func(self.0.principal, self.0.method.clone())
    }
}
impl Corp for Counter {
    fn rdesc(_d: &mut Defs) -> String {
        "(newtype Service)".into()
    }
    fn arb(r: &mut Rng, _d: u32) -> Self {
        Counter::new(crate::gen::principal(r))
    }
    fn idl(&self) -> IDLValue {
        IDLValue::Service(self.0.principal)
    }
}
#[allow(dead_code)]
fn _uses(_: Func, _: Service) {}

// ---------------------------------------------------------------------------------------- the registry

pub struct Entry {
    pub name: String,
    /// native round trip on a generated value: Ok((message, abstract value)) or an explanation
    pub roundtrip: fn(&mut Rng) -> Result<(Vec<u8>, IDLValue), String>,
    /// only the encoding of a generated value (for types whose generator goes beyond what they accept back)
    pub encode: fn(&mut Rng) -> Option<Vec<u8>>,
    /// native decoding of arbitrary bytes: the decoded value re-encoded and read back untyped
    pub decode: fn(&[u8]) -> Result<IDLValue, String>,
    pub decode_cfg: fn(&[u8], Option<usize>, Option<usize>) -> Result<(), String>,
    pub ty: fn() -> (candid::TypeEnv, candid::types::Type),
    pub host_ok: fn(&IDLValue) -> bool,
    pub no_dups: fn(&IDLValue) -> bool,
    /// touch the type memo only
    pub touch: fn(),
    /// the Rust type as a term of the native mirror's grammar
    pub rdesc: fn() -> String,
    /// `T::ty()` with its knots (what `get_value::<T>` expects), for the native mirror
    pub raw_ty: fn() -> (candid::TypeEnv, candid::types::Type),
}

fn rt<T: Corp>(r: &mut Rng) -> Result<(Vec<u8>, IDLValue), String> {
    let v = T::arb(r, 3);
    let bytes = Encode!(&v).map_err(|e| format!("encode: {e}"))?;
    let back = Decode!(&bytes, T).map_err(|e| format!("decode: {e}"))?;
    // equality through the bytes: bit-exact for floats, independent of PartialEq impls
    let again = Encode!(&back).map_err(|e| format!("re-encode: {e}"))?;
    if !T::HASHY && again != bytes {
        return Err("decoded value re-encodes differently".into());
    }
    if crate::sexp::val(&back.idl(), true) != crate::sexp::val(&v.idl(), true) {
        return Err("decoded value differs from the original".into());
    }
    // leaves no unread input: checked by Decode!'s done(); and with the builder API
    let mut de = candid::de::IDLDeserialize::new(&bytes).map_err(|e| format!("new: {e}"))?;
    let _v: T = de.get_value().map_err(|e| format!("get_value: {e}"))?;
    de.done().map_err(|e| format!("done: {e}"))?;
    Ok((bytes, v.idl()))
}
fn enc<T: Corp>(r: &mut Rng) -> Option<Vec<u8>> {
    let v = T::arb(r, 3);
    Encode!(&v).ok()
}
fn dec<T: Corp>(b: &[u8]) -> Result<IDLValue, String> {
    let v = Decode!(b, T).map_err(|e| format!("{e}"))?;
    Ok(v.idl())
}
fn dec_cfg<T: Corp>(b: &[u8], dq: Option<usize>, sq: Option<usize>) -> Result<(), String> {
    let mut cfg = candid::DecoderConfig::new();
    if let Some(n) = dq {
        cfg.set_decoding_quota(n);
    }
    if let Some(n) = sq {
        cfg.set_skipping_quota(n);
    }
    let mut de = candid::de::IDLDeserialize::new_with_config(b, &cfg).map_err(|e| format!("{e}"))?;
    let _v: T = de.get_value().map_err(|e| format!("{e}"))?;
    de.done().map_err(|e| format!("{e}"))
}
fn tyc<T: Corp>() -> (candid::TypeEnv, candid::types::Type) {
    let mut c = candid::types::internal::TypeContainer::new();
    let t = c.add::<T>();
    (c.env, t)
}
/// `T::ty()` as the native decoder sees it: non-recursive types inline, recursive ones as knots, whose definitions
/// (in the derive macro's thread-local environment) are collected under the knot's name
fn raw<T: Corp>() -> (candid::TypeEnv, candid::types::Type) {
    let t = T::ty();
    let mut env = candid::TypeEnv::new();
    collect_knots(&t, &mut env);
    (env, t)
}
fn collect_knots(t: &candid::types::Type, env: &mut candid::TypeEnv) {
    use candid::types::internal::{find_type, TypeInner::*};
    match t.as_ref() {
        Knot(id) => {
            let name = format!("{id}");
            if !env.0.contains_key(&name) {
                if let Some(d) = find_type(id) {
                    env.0.insert(name, d.clone());
                    collect_knots(&d, env);
                }
            }
        }
        Opt(t) | Vec(t) => collect_knots(t, env),
        Record(fs) | Variant(fs) => fs.iter().for_each(|f| collect_knots(&f.ty, env)),
        Func(f) => f.args.iter().chain(f.rets.iter()).for_each(|t| collect_knots(t, env)),
        Service(ms) => ms.iter().for_each(|(_, t)| collect_knots(t, env)),
        Class(args, t) => {
            args.iter().for_each(|t| collect_knots(t, env));
            collect_knots(t, env)
        }
        _ => {}
    }
}
fn touch<T: Corp>() {
    let _ = T::ty();
}

pub type W4<T> = Vec<Vec<Vec<Vec<T>>>>;
pub type W16<T> = W4<W4<W4<W4<T>>>>;
pub type W64<T> = W16<W16<W16<W16<T>>>>;

macro_rules! entry {
    ($t:ty) => {
        Entry {
            name: stringify!($t).replace(' ', ""),
            roundtrip: rt::<$t>,
            encode: enc::<$t>,
            decode: dec::<$t>,
            decode_cfg: dec_cfg::<$t>,
            ty: tyc::<$t>,
            host_ok: <$t as Corp>::host_ok,
            no_dups: <$t as Corp>::no_dups,
            touch: touch::<$t>,
            rdesc: rust_desc::<$t>,
            raw_ty: raw::<$t>,
        }
    };
}
macro_rules! over_elems {
    ($v:ident, $mac:ident) => {
        $mac!($v, bool); $mac!($v, u8); $mac!($v, u64); $mac!($v, i16); $mac!($v, f64); $mac!($v, String);
        $mac!($v, Nat); $mac!($v, Int); $mac!($v, Principal); $mac!($v, Point); $mac!($v, u128); $mac!($v, ());
    };
}
macro_rules! containers_of {
    ($v:ident, $t:ty) => {
        $v.push(entry!($t));
        $v.push(entry!(Option<$t>));
        $v.push(entry!(Vec<$t>));
        $v.push(entry!(Vec<Option<$t>>));
        $v.push(entry!(Option<Vec<$t>>));
        $v.push(entry!([$t; 2]));
        $v.push(entry!(($t, $t)));
        $v.push(entry!(Wrap<$t>));
        $v.push(entry!(Box<$t>));
        $v.push(entry!(BTreeMap<String, $t>));
        $v.push(entry!(BTreeMap<u8, $t>));
        $v.push(entry!(BTreeMap<Int, $t>));
        $v.push(entry!(BTreeMap<Principal, $t>));
        $v.push(entry!(Result<$t, String>));
    };
}
macro_rules! keyed_by {
    ($v:ident, $k:ty) => {
        $v.push(entry!(BTreeMap<$k, Nat>));
        $v.push(entry!(BTreeMap<$k, Int>));
        $v.push(entry!(BTreeMap<$k, String>));
        $v.push(entry!(BTreeMap<$k, ByteBuf>));
        $v.push(entry!(BTreeMap<$k, Vec<$k>>));
        $v.push(entry!(BTreeMap<$k, BTreeMap<$k, Int>>));
        $v.push(entry!(BTreeSet<$k>));
        $v.push(entry!(HashMap<$k, u8>));
    };
}

/// a container followed by values of other types in the same message (state a specialised path leaves behind —
/// fast-path flags, cursors, expected / wire types — shows in what is decoded next)
macro_rules! followed_by {
    ($v:ident, $c:ty) => {
        $v.push(entry!(($c, Int)));
        $v.push(entry!(($c, u8, Nat)));
        $v.push(entry!(($c, String)));
        $v.push(entry!(Pair<$c, Int>));
        $v.push(entry!(Vec<($c, Int)>));
        $v.push(entry!(($c, Option<Int>, $c)));
    };
}

pub fn all() -> Vec<Entry> {
    let mut v: Vec<Entry> = vec![];
    over_elems!(v, containers_of);
    followed_by!(v, [Nat; 2]);
    followed_by!(v, [Int; 2]);
    followed_by!(v, [u128; 2]);
    followed_by!(v, [u8; 2]);
    followed_by!(v, [String; 2]);
    followed_by!(v, Vec<Nat>);
    followed_by!(v, Vec<u8>);
    followed_by!(v, Option<Nat>);
    followed_by!(v, BTreeMap<String, Nat>);
    followed_by!(v, BTreeMap<u8, Int>);
    followed_by!(v, BTreeSet<Nat>);
    followed_by!(v, ByteBuf);
    // maps whose key or value may be missing on the wire (a subtype may drop an optional component)
    v.push(entry!(BTreeMap<String, Option<u8>>));
    v.push(entry!(BTreeMap<Option<String>, u8>));
    v.push(entry!(BTreeMap<u8, Option<Nat>>));
    v.push(entry!(BTreeMap<Option<u8>, Option<Int>>));
    v.push(entry!(HashMap<String, Option<Int>>));
    v.push(entry!(BTreeMap<String, Reserved>));
    v.push(entry!(Vec<(String, Option<u8>)>));
    keyed_by!(v, String);
    keyed_by!(v, u8);
    keyed_by!(v, Nat);
    keyed_by!(v, Int);
    keyed_by!(v, Principal);
    keyed_by!(v, i64);
    // newtype structs around primitives inside vectors (`struct Id(u64)` in a `Vec<Id>`): the element type is the
    // primitive's, so the bulk reader of primitive vectors is taken
    v.push(entry!(Vec<Wrap<u8>>));
    v.push(entry!(Vec<Wrap<u64>>));
    v.push(entry!(Vec<Wrap<bool>>));
    v.push(entry!(Vec<Wrap<i16>>));
    v.push(entry!(Vec<Wrap<f64>>));
    v.push(entry!(Vec<Wrap<Wrap<u32>>>));
    v.push(entry!(Vec<Wrap<Nat>>));
    v.push(entry!(Vec<Wrap<String>>));
    v.push(entry!([Wrap<u8>; 2]));
    v.push(entry!(Option<Vec<Wrap<i64>>>));
    v.push(entry!(BTreeMap<String, Vec<Wrap<u16>>>));
    v.push(entry!((Vec<Wrap<u8>>, Int)));
    v.push(entry!(i128));
    v.push(entry!(Vec<i128>));
    v.push(entry!(i8));
    v.push(entry!(u16));
    v.push(entry!(u32));
    v.push(entry!(i32));
    v.push(entry!(i64));
    v.push(entry!(f32));
    v.push(entry!(Vec<f32>));
    v.push(entry!(Reserved));
    v.push(entry!(ByteBuf));
    v.push(entry!(Vec<ByteBuf>));
    v.push(entry!(Renamed));
    v.push(entry!(RawFields));
    v.push(entry!(Vec<RawFields>));
    v.push(entry!(Option<RawFields>));
    v.push(entry!(BTreeMap<String, RawFields>));
    v.push(entry!(Vec<Renamed>));
    v.push(entry!(Shape));
    v.push(entry!(Vec<Shape>));
    v.push(entry!(Option<Shape>));
    v.push(entry!(List));
    v.push(entry!(Option<List>));
    // the inner types of the recursive definitions themselves (their memo entries are created while the
    // enclosing type is still being derived)
    v.push(entry!(Option<Box<List>>));
    v.push(entry!(Box<List>));
    v.push(entry!(Vec<Forest>));
    v.push(entry!(BTreeMap<String, Tree>));
    v.push(entry!(Box<Tree>));
    v.push(entry!(Option<Box<Shape>>));
    v.push(entry!(Option<Box<Generic<String, u8>>>));
    v.push(entry!(Tree));
    v.push(entry!(Forest));
    v.push(entry!(Vec<Tree>));
    v.push(entry!(Generic<u8, String>));
    v.push(entry!(Generic<Nat, Generic<bool, Int>>));
    v.push(entry!(Pair<u8, String>));
    v.push(entry!(Pair<Nat, Pair<Int, u8>>));
    // type tables with more than 64 entries: references to entries 64.. take two bytes of signed LEB128
    v.push(entry!(W64<W4<Vec<u16>>>));
    v.push(entry!((W64<Option<u8>>, List)));
    v.push(entry!(Generic<W64<Nat>, Shape>));
    v.push(entry!(Vec<W64<W16<Point>>>));
    v.push(entry!((u8, String, Vec<Int>)));
    v.push(entry!((Nat,)));
    v.push(entry!(Callback));
    v.push(entry!(Counter));
    v.push(entry!(Vec<Callback>));
    v.push(entry!(Option<Counter>));
    v.push(entry!(BTreeMap<String, Shape>));
    v.push(entry!(BTreeMap<String, BTreeMap<u8, Nat>>));
    v.push(entry!(BTreeMap<u8, BTreeMap<String, Int>>));
    v.push(entry!(Vec<BTreeMap<Int, Nat>>));
    v.push(entry!(Result<Vec<Nat>, Shape>));
    v.push(entry!(BoundedVec<4, UNBOUNDED, UNBOUNDED, u8>));
    v.push(entry!(BoundedVec<UNBOUNDED, 16, UNBOUNDED, u64>));
    v.push(entry!(BoundedVec<UNBOUNDED, 10, 6, String>));
    v.push(entry!(BoundedVec<3, 12, 5, String>));
    v.push(entry!(BoundedVec<2, UNBOUNDED, 3, String>));
    v
}
