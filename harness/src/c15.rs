//! C15 — names and numeric ids.  Ops (model: lean/CandidModel/Driver/Labels.lean):
//!   hash.idl <hex utf8>           candid::idl_hash (+ oracle: Label::Named(..).get_id agrees)
//!   lbl.cmp <l1> <l2>             Label eq / cmp / hash
//!   lbl.sorted <labels> <entry>   the sort-and-check-unique step of one entry point:
//!        macro      candid::utils::check_unique after sort_unstable_by_key (what record!/variant! expand to)
//!        typetext   "record { … }" through the type parser
//!        varianttext "variant { … }" through the type parser
//!        valuetext  "(record { … })" through the value parser (+ oracle: named and numeric spellings interchange)
use crate::sexp;
use crate::{guarded, Ctx, Out};
use candid::types::internal::{Field, Label, Type, TypeInner};
use candid::types::value::IDLValue;
use candid::types::TypeEnv;
use candid::IDLArgs;
use std::collections::hash_map::DefaultHasher;
use std::hash::{Hash, Hasher};

fn label_text(l: &Label) -> String {
    match l {
        Label::Id(n) | Label::Unnamed(n) => n.to_string(),
        Label::Named(s) => {
            // every byte as a \xx escape inside quotes: valid for any UTF-8 name
            let mut o = String::from("\"");
            for b in s.as_bytes() {
                o.push_str(&format!("\\{:02x}", b));
            }
            o.push('"');
            o
        }
    }
}

fn leb(out: &mut Vec<u8>, mut n: u64) {
    loop {
        let b = (n & 0x7f) as u8;
        n >>= 7;
        if n == 0 {
            out.push(b);
            return;
        }
        out.push(b | 0x80);
    }
}

fn parse_labels(s: &str) -> Option<Vec<Label>> {
    match sexp::parse(s)? {
        sexp::S::L(xs) => xs
            .iter()
            .map(|x| match x {
                sexp::S::A(a) => sexp::parse_label(a),
                _ => None,
            })
            .collect(),
        _ => None,
    }
}

fn ids_of_fields(fs: &[Field]) -> String {
    format!("ok {}", fs.iter().map(|f| f.id.get_id().to_string()).collect::<Vec<_>>().join(" "))
}

pub fn eval(out: &mut Out, op: &str, args: &[&str]) -> Option<String> {
    match op {
        "hash.idl" => {
            let b = sexp::unhx(args.first()?)?;
            let s = String::from_utf8(b).ok()?;
            let h = candid::idl_hash(&s);
            if Label::Named(s.clone()).get_id() != h {
                out.oracle_failure("Label::Named(s).get_id() != idl_hash(s)", args[0]);
            }
            Some(h.to_string())
        }
        "lbl.cmp" => {
            let l1 = sexp::parse_label(args.first()?)?;
            let l2 = sexp::parse_label(args.get(1)?)?;
            let hh = |l: &Label| {
                let mut h = DefaultHasher::new();
                l.hash(&mut h);
                h.finish()
            };
            let ord = match l1.cmp(&l2) {
                std::cmp::Ordering::Less => "lt",
                std::cmp::Ordering::Equal => "eq",
                std::cmp::Ordering::Greater => "gt",
            };
            if l1.partial_cmp(&l2) != Some(l1.cmp(&l2)) || (l1 == l2) != (l2 == l1) {
                out.oracle_failure("Label partial_cmp/cmp or eq symmetry", &args.join("\t"));
            }
            Some(format!("eq:{} ord:{} hash:{}", l1 == l2, ord, if hh(&l1) == hh(&l2) { "same" } else { "diff" }))
        }
        "lbl.sorted" => {
            let ls = parse_labels(args.first()?)?;
            let entry = *args.get(1)?;
            let line = args.join("\t");
            Some(match entry {
                "macro" => {
                    let mut fs: Vec<Field> = ls.iter().map(|l| Field { id: l.clone().into(), ty: TypeInner::Nat.into() }).collect();
                    fs.sort_unstable_by_key(|f| f.id.get_id());
                    match guarded(move || candid::utils::check_unique(fs.iter().map(|f| &f.id)).map(|_| ids_of_fields(&fs))) {
                        Err(_) => "panic".into(),
                        Ok(Err(_)) => "err".into(),
                        Ok(Ok(s)) => s,
                    }
                }
                "typetext" | "varianttext" => {
                    let kw = if entry == "typetext" { "record" } else { "variant" };
                    let body: Vec<String> = ls.iter().map(|l| format!("{} : nat", label_text(l))).collect();
                    let src = format!("{kw} {{ {} }}", body.join("; "));
                    match guarded(move || {
                        let ast = src.parse::<candid_parser::syntax::IDLType>()?;
                        let mut env = TypeEnv::new();
                        candid_parser::typing::ast_to_type(&mut env, &ast)
                    }) {
                        Err(_) => "panic".into(),
                        Ok(Err(_)) => "err".into(),
                        Ok(Ok(t)) => match t.as_ref() {
                            TypeInner::Record(fs) | TypeInner::Variant(fs) => ids_of_fields(fs),
                            _ => "err".into(),
                        },
                    }
                }
                "valuetext" => {
                    let body: Vec<String> = ls.iter().enumerate().map(|(i, l)| format!("{} = {}", label_text(l), i)).collect();
                    let src = format!("(record {{ {} }})", body.join("; "));
                    match guarded(move || candid_parser::parse_idl_args(&src)) {
                        Err(_) => "panic".into(),
                        Ok(Err(_)) => "err".into(),
                        Ok(Ok(a)) => match &a.args[..] {
                            [IDLValue::Record(fs)] => {
                                // named and numeric spellings are interchangeable: annotate at the all-numeric type,
                                // encode, decode at the type as spelled; and the other way round
                                let spelled: Vec<Field> = {
                                    let mut v: Vec<Field> = ls.iter().map(|l| Field { id: l.clone().into(), ty: TypeInner::Int.into() }).collect();
                                    v.sort_unstable_by_key(|f| f.id.get_id());
                                    v
                                };
                                let numeric: Vec<Field> =
                                    spelled.iter().map(|f| Field { id: Label::Id(f.id.get_id()).into(), ty: TypeInner::Int.into() }).collect();
                                let ts: Type = TypeInner::Record(spelled).into();
                                let tn: Type = TypeInner::Record(numeric).into();
                                let env = TypeEnv::new();
                                let r1 = a.clone().annotate_types(true, &env, &[tn.clone()]).and_then(|x| x.to_bytes_with_types(&env, &[tn.clone()]));
                                let r2 = a.clone().annotate_types(true, &env, &[ts.clone()]).and_then(|x| x.to_bytes_with_types(&env, &[ts.clone()]));
                                match (r1, r2) {
                                    (Ok(b1), Ok(b2)) => {
                                        if b1 != b2 {
                                            out.oracle_failure("named and numeric spellings encode differently", &line);
                                        }
                                        let d1 = IDLArgs::from_bytes_with_types(&b1, &env, &[ts.clone()]);
                                        let d2 = IDLArgs::from_bytes_with_types(&b2, &env, &[tn.clone()]);
                                        match (d1, d2) {
                                            (Ok(x), Ok(y)) => {
                                                if sexp::vals(&x.args, true) != sexp::vals(&y.args, true) {
                                                    out.oracle_failure("named/numeric decode differently", &line);
                                                }
                                            }
                                            _ => out.oracle_failure("value encoded with named fields does not decode at numeric ids (or vice versa)", &line),
                                        }
                                    }
                                    _ => out.oracle_failure("parsed record does not annotate/encode at its own labels", &line),
                                }
                                format!("ok {}", fs.iter().map(|f| f.id.get_id().to_string()).collect::<Vec<_>>().join(" "))
                            }
                            _ => "err".into(),
                        },
                    }
                }
                _ => return None,
            })
        }
        _ => None,
    }
}

fn rand_name(ctx: &mut Ctx) -> String {
    let n = ctx.rng.range(0, 8);
    match ctx.rng.below(6) {
        0 => (*ctx.rng.pick(&["record", "service", "type", "nat", "opt", "vec", "true", "false", "null", "func", "query", "import", "blob", "principal"])).to_string(),
        1 => (0..n).map(|_| char::from_u32(ctx.rng.range(0x80, 0x2fff) as u32).unwrap_or('é')).collect(),
        2 => format!("{}", ctx.rng.below(1000)),
        3 => format!("_{}_", ctx.rng.below(100)),
        _ => (0..n.max(1)).map(|_| (b'a' + ctx.rng.below(26) as u8) as char).collect(),
    }
}

/// distinct names with equal hash, found by enumeration (birthday search over short lower-case strings)
pub fn collisions(limit: usize) -> Vec<(String, String)> {
    use std::collections::HashMap;
    let mut seen: HashMap<u32, String> = HashMap::new();
    let mut out = vec![];
    // fixed stream of six-letter names (hashes of shorter ones do not wrap around 2^32)
    let mut r = crate::Rng(0xC15);
    for _ in 0..1_500_000 {
        let s: String = (0..6).map(|_| (b'a' + r.below(26) as u8) as char).collect();
        let h = spec_hash(s.as_bytes());
        match seen.get(&h) {
            Some(prev) if *prev != s => {
                out.push((prev.clone(), s.clone()));
                if out.len() >= limit {
                    break;
                }
            }
            Some(_) => {}
            None => {
                seen.insert(h, s);
            }
        }
    }
    out
}

/// the spec's polynomial, computed independently of the crate (64-bit accumulate, reduce at the end of each step)
pub fn spec_hash(b: &[u8]) -> u32 {
    let mut acc: u64 = 0;
    for &c in b {
        acc = (acc * 223 + c as u64) % (1u64 << 32);
    }
    acc as u32
}

pub fn run(ctx: &mut Ctx) {
    // 1. hash: exhaustive over all byte strings of length ≤ 2 that are valid UTF-8, random longer ones
    ctx.emit("hash.idl\t-", true);
    for a in 0..128u8 {
        ctx.emit(&format!("hash.idl\t{}", sexp::hx(&[a])), true);
        for b in 0..128u8 {
            ctx.emit(&format!("hash.idl\t{}", sexp::hx(&[a, b])), true);
        }
    }
    for cp in (0x80u32..0x800).step_by(if ctx.thorough { 1 } else { 7 }) {
        let s = char::from_u32(cp).unwrap().to_string();
        ctx.emit(&format!("hash.idl\t{}", sexp::hx(s.as_bytes())), true);
    }
    ctx.out.exhaustive.push("idl_hash on every ASCII string of length <= 2".into());
    let n = if ctx.thorough { 300_000 } else { 8_000 };
    for _ in 0..n {
        let len = ctx.rng.range(0, 64) as usize;
        let s: String = (0..len)
            .map(|_| match ctx.rng.below(5) {
                0 => char::from_u32(ctx.rng.range(0x80, 0xd7ff) as u32).unwrap_or('x'),
                1 => char::from_u32(ctx.rng.range(0x10000, 0x10ffff) as u32).unwrap_or('y'),
                _ => (ctx.rng.range(0x20, 0x7e) as u8) as char,
            })
            .collect();
        ctx.emit(&format!("hash.idl\t{}", sexp::hx(s.as_bytes())), true);
    }
    // 2. colliding names
    let cols = collisions(if ctx.thorough { 40 } else { 8 });
    ctx.out.stat(&format!("collision-pairs:{}", cols.len()));
    // 3. label comparisons and the sort-and-check step at every entry point
    let m = if ctx.thorough { 60_000 } else { 3_000 };
    for i in 0..m {
        let k = ctx.rng.range(0, 5) as usize;
        let mut ls: Vec<Label> = vec![];
        for _ in 0..k {
            let l = match ctx.rng.below(6) {
                0 => Label::Id(ctx.rng.below(6) as u32),
                1 => Label::Id(*ctx.rng.pick(&[0u32, 1, 4294967295, 4294967294, 2147483648])),
                2 if !ls.is_empty() => {
                    // the numeric spelling of a name already present, or the same again
                    let j = ctx.rng.below(ls.len() as u64) as usize;
                    if ctx.rng.chance(1, 2) { Label::Id(ls[j].get_id()) } else { ls[j].clone() }
                }
                3 if !cols.is_empty() => {
                    let (a, b) = ctx.rng.pick(&cols).clone();
                    if ctx.rng.chance(1, 2) {
                        ls.push(Label::Named(a));
                        Label::Named(b)
                    } else {
                        Label::Named(a)
                    }
                }
                _ => Label::Named(rand_name(ctx)),
            };
            ls.push(l);
        }
        let s = format!("({})", ls.iter().map(sexp::label).collect::<Vec<_>>().join(" "));
        for entry in ["macro", "typetext", "valuetext", "varianttext"] {
            if entry == "macro" || i % 2 == 0 {
                ctx.emit(&format!("lbl.sorted\t{s}\t{entry}"), ls.len() >= 2);
            }
        }
        if ls.len() >= 2 {
            ctx.emit(&format!("lbl.cmp\t{}\t{}", sexp::label(&ls[0]), sexp::label(&ls[1])), true);
        }
        // the same ids, in the order given, as the field list of a record / variant entry of a message header: the binary
        // parser must accept exactly the strictly ascending lists (ids at both ends of the u32 range included)
        for opcode in [0x6cu8, 0x6b] {
            let mut b: Vec<u8> = b"DIDL\x01".to_vec();
            b.push(opcode);
            leb(&mut b, ls.len() as u64);
            for l in &ls {
                leb(&mut b, l.get_id() as u64);
                b.push(0x7f);
            }
            b.extend_from_slice(&[0x01, 0x00]);
            ctx.emit(&format!("wire.header\t{}", sexp::hx(&b)), ls.len() >= 2);
        }
    }
    // boundary ids, pairwise: equal, ascending, descending — at the top and the bottom of the range
    let edge: [u32; 6] = [0, 1, 2147483648, 4294967293, 4294967294, 4294967295];
    for a in edge {
        for c in edge {
            for opcode in [0x6cu8, 0x6b] {
                let mut b: Vec<u8> = b"DIDL\x01".to_vec();
                b.push(opcode);
                leb(&mut b, 2);
                for id in [a, c] {
                    leb(&mut b, id as u64);
                    b.push(0x7f);
                }
                b.extend_from_slice(&[0x01, 0x00]);
                ctx.emit(&format!("wire.header\t{}", sexp::hx(&b)), true);
            }
        }
    }
    for (a, b) in &cols {
        ctx.emit(&format!("lbl.cmp\t{}\t{}", sexp::label(&Label::Named(a.clone())), sexp::label(&Label::Named(b.clone()))), true);
        ctx.emit(
            &format!("lbl.cmp\t{}\t{}", sexp::label(&Label::Named(a.clone())), sexp::label(&Label::Id(spec_hash(b.as_bytes())))),
            true,
        );
    }
}
