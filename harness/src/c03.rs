//! C03 / C10 — the encoder and annotate.  Ops (model: lean/CandidModel/Driver/Wire.lean):
//!   wire.roundtrip <env> <tys> <vals>          to_bytes_with_types, then from_bytes_with_types (+ oracles)
//!   wire.annotate <fromParser> <env> <ty> <val> IDLValue::annotate_type
use crate::c02;
use crate::gen;
use crate::sexp;
use crate::{guarded, Ctx, Out};
use candid::types::internal::{Field, Label, Type, TypeInner};
use candid::types::value::{IDLField, IDLValue, VariantValue};
use candid::types::TypeEnv;
use candid::IDLArgs;

pub fn eval(out: &mut Out, op: &str, args: &[&str]) -> Option<String> {
    match op {
        "wire.roundtrip" => {
            let env = sexp::to_env(&sexp::parse(args.first()?)?)?;
            let tys = sexp::to_tys(&sexp::parse(args.get(1)?)?)?;
            let vals = sexp::to_vals(&sexp::parse(args.get(2)?)?)?;
            let line = args.join("\t");
            let a = IDLArgs { args: vals.clone() };
            let (e1, t1, a1) = (env.clone(), tys.clone(), a.clone());
            let enc = guarded(move || a1.to_bytes_with_types(&e1, &t1));
            Some(match enc {
                Err(_) => "panic".into(),
                Ok(Err(_)) => "err".into(),
                Ok(Ok(bytes)) => {
                    // determinism: encode again, with a fresh builder
                    let (e1, t1, a1) = (env.clone(), tys.clone(), a.clone());
                    if guarded(move || a1.to_bytes_with_types(&e1, &t1)).ok().and_then(|r| r.ok()).as_ref() != Some(&bytes) {
                        out.oracle_failure("encoding the same arguments twice gives different bytes", &line);
                    }
                    // the header read back by the header parser has only composite entries, ascending ids/names
                    let (e1, t1, b1) = (env.clone(), tys.clone(), bytes.clone());
                    let back = guarded(move || IDLArgs::from_bytes_with_types(&b1, &e1, &t1));
                    let backs = match back {
                        Err(_) => "panic".to_string(),
                        Ok(Err(_)) => "undecodable".to_string(),
                        Ok(Ok(r)) => {
                            // decoding with no expected types gives the same abstract values
                            let b2 = bytes.clone();
                            match guarded(move || IDLArgs::from_bytes(&b2)) {
                                Ok(Ok(r2)) => {
                                    if !same_abstract(&r.args, &r2.args) {
                                        out.oracle_failure("from_bytes differs from from_bytes_with_types at the encoding type", &line);
                                    }
                                }
                                _ => out.oracle_failure("from_bytes fails on an encoded message", &line),
                            }
                            sexp::vals(&r.args, true)
                        }
                    };
                    format!("ok {} {}", hex::encode(&bytes), backs)
                }
            })
        }
        "wire.annotate" => {
            let fp = *args.first()? == "true";
            let env = sexp::to_env(&sexp::parse(args.get(1)?)?)?;
            let t = sexp::to_ty(&sexp::parse(args.get(2)?)?)?;
            let v = sexp::to_val(&sexp::parse(args.get(3)?)?)?;
            Some(match guarded(move || v.annotate_type(fp, &env, &t)) {
                Err(_) => "panic".into(),
                Ok(Err(_)) => "err".into(),
                Ok(Ok(v2)) => format!("ok {}", sexp::val(&v2, true)),
            })
        }
        _ => None,
    }
}

/// equality of abstract values: labels by id, `reserved` positions carry no information
fn same_abstract(a: &[IDLValue], b: &[IDLValue]) -> bool {
    a.len() == b.len() && a.iter().zip(b).all(|(x, y)| same1(x, y))
}
fn same1(a: &IDLValue, b: &IDLValue) -> bool {
    use IDLValue::*;
    match (a, b) {
        (Reserved, _) | (_, Reserved) => true,
        (Opt(x), Opt(y)) => same1(x, y),
        (Vec(x), Vec(y)) => same_abstract(x, y),
        (Blob(x), Vec(y)) | (Vec(y), Blob(x)) => x.len() == y.len() && x.iter().zip(y).all(|(p, q)| matches!(q, Nat8(n) if n == p)),
        (Record(x), Record(y)) => {
            x.len() == y.len() && x.iter().zip(y).all(|(f, g)| f.id.get_id() == g.id.get_id() && same1(&f.val, &g.val))
        }
        (Variant(x), Variant(y)) => x.0.id.get_id() == y.0.id.get_id() && same1(&x.0.val, &y.0.val),
        (Float32(x), Float32(y)) => x.to_bits() == y.to_bits(),
        (Float64(x), Float64(y)) => x.to_bits() == y.to_bits(),
        (x, y) => x == y,
    }
}

/// a near-miss of `v` (wrong width, missing field, unknown tag, wrong reference kind, nat for text …)
fn near_miss(ctx: &mut Ctx, v: &IDLValue) -> IDLValue {
    use IDLValue::*;
    match v {
        Nat8(n) => Nat16(*n as u16),
        Nat16(n) => Nat32(*n as u32),
        Nat32(n) => Nat64(*n as u64),
        Nat64(n) => Int64(*n as i64),
        Int8(n) => Int16(*n as i16),
        Int16(n) => Int8(*n as i8),
        Int32(n) => Nat32(*n as u32),
        Int64(n) => Int32(*n as i32),
        Nat(n) => Text(n.to_string()),
        Int(n) => Nat(candid::Nat(n.0.magnitude().clone())),
        Text(s) => Blob(s.as_bytes().to_vec()),
        Bool(b) => Nat8(*b as u8),
        Null => Bool(false),
        Principal(p) => Service(*p),
        Service(p) => Principal(*p),
        Func(p, _) => Service(*p),
        Float32(f) => Nat32(f.to_bits()),
        Float64(f) => Nat64(f.to_bits()),
        Record(fs) if !fs.is_empty() => {
            let mut fs = fs.clone();
            let i = ctx.rng.below(fs.len() as u64) as usize;
            if ctx.rng.chance(1, 2) {
                fs.remove(i);
            } else {
                fs[i].val = near_miss(ctx, &fs[i].val.clone());
            }
            Record(fs)
        }
        Variant(VariantValue(f, i)) => {
            if ctx.rng.chance(1, 2) {
                Variant(VariantValue(Box::new(IDLField { id: Label::Id(123456789), val: f.val.clone() }), *i))
            } else {
                Variant(VariantValue(Box::new(IDLField { id: f.id.clone(), val: near_miss(ctx, &f.val) }), *i))
            }
        }
        Vec(vs) if !vs.is_empty() => {
            let mut vs = vs.clone();
            let i = ctx.rng.below(vs.len() as u64) as usize;
            vs[i] = near_miss(ctx, &vs[i].clone());
            Vec(vs)
        }
        Opt(v) => Opt(Box::new(near_miss(ctx, v))),
        Blob(b) => Vec(b.iter().map(|x| Nat16(*x as u16)).collect()),
        other => other.clone(),
    }
}

fn emit_roundtrip(ctx: &mut Ctx, env: &TypeEnv, tys: &[Type], vals: &[IDLValue], nt: bool) {
    ctx.emit(
        &format!("wire.roundtrip\t{}\t{}\t{}", sexp::env(env), sexp::tys(tys), sexp::vals(vals, false)),
        nt,
    );
}

pub fn run(ctx: &mut Ctx) {
    // the native half of the property: messages the native encoder writes for the corpus of Rust types
    crate::c01::run_native_wellformed(ctx);
    // aliases of primitives, recursive and mutually recursive definitions, by hand
    {
        let mut env = TypeEnv::new();
        env.0.insert("N".into(), TypeInner::Nat.into());
        env.0.insert("NN".into(), TypeInner::Var("N".into()).into());
        env.0.insert("P".into(), TypeInner::Principal.into());
        env.0.insert(
            "L".into(),
            TypeInner::Opt(
                TypeInner::Record(vec![
                    Field { id: Label::Named("head".into()).into(), ty: TypeInner::Var("NN".into()).into() },
                    Field { id: Label::Named("tail".into()).into(), ty: TypeInner::Var("L".into()).into() },
                ])
                .into(),
            )
            .into(),
        );
        let mut fs = vec![
            Field { id: Label::Named("head".into()).into(), ty: TypeInner::Var("NN".into()).into() },
            Field { id: Label::Named("tail".into()).into(), ty: TypeInner::Var("L".into()).into() },
        ];
        fs.sort_unstable_by_key(|f| f.id.get_id());
        env.0.insert("L".into(), TypeInner::Opt(TypeInner::Record(fs).into()).into());
        let nil = IDLValue::None;
        let cons = |h: u32, t: IDLValue| {
            let mut f = vec![
                IDLField { id: Label::Named("head".into()), val: IDLValue::Nat(h.into()) },
                IDLField { id: Label::Named("tail".into()), val: t },
            ];
            f.sort_unstable_by_key(|f| f.id.get_id());
            IDLValue::Opt(Box::new(IDLValue::Record(f)))
        };
        let l3 = cons(1, cons(2, cons(3, nil.clone())));
        let v = |n: &str| -> Type { TypeInner::Var(n.into()).into() };
        emit_roundtrip(ctx, &env, &[v("L"), v("NN"), v("P"), v("L")], &[l3.clone(), IDLValue::Nat(7u8.into()), IDLValue::Principal(candid::Principal::anonymous()), nil.clone()], true);
        emit_roundtrip(ctx, &env, &[v("N"), TypeInner::Nat.into(), v("NN")], &[IDLValue::Nat(1u8.into()), IDLValue::Nat(2u8.into()), IDLValue::Nat(3u8.into())], true);
        emit_roundtrip(ctx, &env, &[TypeInner::Vec(v("L")).into()], &[IDLValue::Vec(vec![l3.clone(), nil.clone()])], true);
        // undefined name, class type, more types than values
        emit_roundtrip(ctx, &env, &[v("Missing")], &[IDLValue::Null], true);
        emit_roundtrip(ctx, &env, &[v("N"), v("N")], &[IDLValue::Nat(1u8.into())], true);
        emit_roundtrip(ctx, &env, &[v("N")], &[IDLValue::Nat(1u8.into()), IDLValue::Nat(2u8.into())], true);
    }
    // large type tables: references to table indices around 63/64 and 127/128 (SLEB128 boundaries)
    {
        let none = TypeEnv::new();
        for k in [1usize, 62, 63, 64, 65, 66, 70, 126, 127, 128, 129, 200] {
            let mut t: Type = TypeInner::Nat8.into();
            for _ in 0..k {
                t = TypeInner::Opt(t).into();
            }
            // value: all the options present down to the number (inner-most first)
            let mut v = IDLValue::Nat8(7);
            for _ in 0..k {
                v = IDLValue::Opt(Box::new(v));
            }
            emit_roundtrip(ctx, &none, &[t.clone()], &[v], true);
            emit_roundtrip(ctx, &none, &[t], &[IDLValue::None], true);
        }
        for k in [60usize, 64, 65, 70, 130] {
            // a record with k fields of pairwise different composite types
            let mut fs = vec![];
            let mut vs = vec![];
            for i in 0..k {
                let inner: Type = TypeInner::Record(vec![Field { id: Label::Id(i as u32 + 1000).into(), ty: TypeInner::Nat8.into() }]).into();
                fs.push(Field { id: Label::Id(i as u32).into(), ty: TypeInner::Opt(inner).into() });
                vs.push(IDLField {
                    id: Label::Id(i as u32),
                    val: IDLValue::Opt(Box::new(IDLValue::Record(vec![IDLField { id: Label::Id(i as u32 + 1000), val: IDLValue::Nat8(i as u8) }]))),
                });
            }
            emit_roundtrip(ctx, &none, &[TypeInner::Record(fs).into()], &[IDLValue::Record(vs)], true);
        }
    }
    let n = if ctx.thorough { 120_000 } else { 6_000 };
    for i in 0..n {
        let refs = ctx.rng.chance(1, 3);
        let Some((m, _g)) = c02::message(ctx, refs) else { continue };
        emit_roundtrip(ctx, &m.env, &m.tys, &m.vals, true);
        // C10: annotate each value at its type (both modes), and a near miss
        for (t, v) in m.tys.iter().zip(m.vals.iter()) {
            let e = sexp::env(&m.env);
            ctx.emit(&format!("wire.annotate\ttrue\t{e}\t{}\t{}", sexp::ty(t), sexp::val(v, false)), true);
            if i % 2 == 0 {
                ctx.emit(&format!("wire.annotate\tfalse\t{e}\t{}\t{}", sexp::ty(t), sexp::val(v, false)), true);
            }
            let nm = near_miss(ctx, v);
            ctx.emit(&format!("wire.annotate\ttrue\t{e}\t{}\t{}", sexp::ty(t), sexp::val(&nm, false)), true);
            if i % 3 == 0 {
                emit_roundtrip(ctx, &m.env, std::slice::from_ref(t), std::slice::from_ref(&nm), true);
            }
        }
        // values with the three allowances: nat at int, anything at reserved, null at opt
        if i % 4 == 0 {
            let e = sexp::env(&m.env);
            for (t, v) in [
                (TypeInner::Int, IDLValue::Nat(5u8.into())),
                (TypeInner::Reserved, IDLValue::Text("x".into())),
                (TypeInner::Opt(TypeInner::Nat.into()), IDLValue::Null),
                (TypeInner::Opt(TypeInner::Nat.into()), IDLValue::Nat(3u8.into())),
                (TypeInner::Nat, IDLValue::Number("42".into())),
                (TypeInner::Int8, IDLValue::Number("-129".into())),
                (TypeInner::Nat8, IDLValue::Number("255".into())),
                (TypeInner::Vec(TypeInner::Nat8.into()), IDLValue::Vec(vec![IDLValue::Number("1".into()), IDLValue::Nat8(2)])),
            ] {
                let t: Type = t.into();
                ctx.emit(&format!("wire.annotate\ttrue\t{e}\t{}\t{}", sexp::ty(&t), sexp::val(&v, false)), true);
                ctx.emit(&format!("wire.annotate\tfalse\t{e}\t{}\t{}", sexp::ty(&t), sexp::val(&v, false)), true);
                emit_roundtrip(ctx, &m.env, &[t], &[v], true);
            }
        }
    }
    let _ = gen::PRIMS;
}
